#!/bin/sh
# MANIFEST.setup_cmd - nothing to compile: verify the interpreter, that kernpy resolves under KERNPY_SRC,
# and run the fast determinism smoke test (same seed twice + another PYTHONHASHSEED in a fresh interpreter).
set -e
cd "$(dirname "$0")"
test -x /venv/bin/python || { echo "missing /venv/bin/python" >&2; exit 1; }
SRC="${KERNPY_SRC:-/repo}"
PYTHONPATH="$SRC" /venv/bin/python - <<PY
import sys, os, warnings
warnings.simplefilter('ignore')
assert sys.version_info[:2] >= (3, 12), sys.version
import kernpy, antlr4
src = os.path.abspath(os.environ.get('KERNPY_SRC', '/repo'))
assert os.path.abspath(kernpy.__file__).startswith(src + os.sep), (kernpy.__file__, src)
assert hasattr(sys, 'monitoring')
print('setup: python', sys.version.split()[0], 'kernpy at', kernpy.__file__)
PY
/venv/bin/python selftest/simfs_vs_real.py 120
SIMKIT_NO_REEXEC=1 /venv/bin/python selftest/simfs_symlinks.py
/venv/bin/python selftest/determinism.py --smoke
echo "setup: ok"
