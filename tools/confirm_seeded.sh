#!/bin/sh
# confirm a sub-agent's change in ITS scratch worktree: demo passes without, fails with; pinned 276 stay green with it.
# usage: confirm_seeded.sh <worktree> <change-dir>
WT="$1"; CH="$2"
cd "$WT" || exit 2
git checkout -q -- kernpy
PYTHONPATH="$WT" /venv/bin/python "$CH/demo.py" >/dev/null 2>&1; a=$?
git apply "$CH/patch.diff" || { echo "PATCH DOES NOT APPLY"; exit 2; }
PYTHONPATH="$WT" /venv/bin/python "$CH/demo.py" >/dev/null 2>&1; b=$?
base=$(python3 /verif/tools/baseline_check.py "$WT" | head -1)
git checkout -q -- kernpy
echo "demo_without_patch_rc=$a demo_with_patch_rc=$b baseline: $base"
[ "$a" = 0 ] && [ "$b" != 0 ] && echo "$base" | grep -q "missing=0" && echo CONFIRMED || echo NOT-CONFIRMED
