#!/usr/bin/env python3
"""Compare a test/-directory run of <repo> against tools/testdir_baseline.json (unchanged tree)."""
import json, os, subprocess, sys, tempfile
here = os.path.dirname(os.path.abspath(__file__))
repo = sys.argv[1] if len(sys.argv) > 1 else '/repo'
with tempfile.TemporaryDirectory() as td:
    out = os.path.join(td, 'o.json')
    subprocess.run([sys.executable, os.path.join(here, 'testdir_run.py'), repo, out], check=True, stdout=subprocess.DEVNULL)
    now = json.load(open(out))
base = json.load(open(os.path.join(here, 'testdir_baseline.json')))
lost = sorted(set(base['passed']) - set(now['passed']))
gained = sorted(set(now['passed']) - set(base['passed']))
print(f'baseline passed={len(base["passed"])} now passed={len(now["passed"])} lost={len(lost)} gained={len(gained)}')
for t in lost: print('  LOST', t)
for t in gained: print('  gained', t)
sys.exit(1 if lost else 0)
