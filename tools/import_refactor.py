#!/usr/bin/env python3
"""usage: import_refactor.py <property> <worktree> <k> <short-name>"""
import json, os, shutil, sys
prop, wt, k, name = sys.argv[1:5]
src = os.path.join(wt, 'deliver', 'change' + k)
dst = os.path.join('/verif/refactors', f'{prop}-{name}')
os.makedirs(dst, exist_ok=True)
for f in ('patch.diff', 'check_same.py', 'README.txt'):
    if os.path.exists(os.path.join(src, f)):
        shutil.copy(os.path.join(src, f), os.path.join(dst, f))
json.dump({'property': prop, 'origin': 'independent sub-agent asked for a substantial behaviour-preserving refactor of the anchored code',
           'expectation': 'all quick checks stay silent (exit 0); pinned 276 stay green'}, open(os.path.join(dst, 'meta.json'), 'w'), indent=1)
print('imported', dst)
