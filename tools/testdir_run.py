#!/usr/bin/env python3
"""Run kernpy's suite from <repo>/test (where the golden fixtures resolve) and dump the set of passing tests.

usage: testdir_run.py <repo_dir> <out.json>
Used only to judge candidate "fix:" commits: a repair must not turn a golden-file test from pass to fail.
"""
import json, os, subprocess, sys, tempfile
import xml.etree.ElementTree as ET
repo, out = sys.argv[1], sys.argv[2]
with tempfile.TemporaryDirectory() as td:
    xml = os.path.join(td, 'r.xml')
    env = dict(os.environ); env['PYTHONPATH'] = repo; env.pop('KERNPY_VERIF', None)
    subprocess.run(['/venv/bin/python', '-m', 'pytest', '-q', '-p', 'no:cacheprovider', '-n', '8', '--timeout=900',
                    '--continue-on-collection-errors', f'--junitxml={xml}'], cwd=os.path.join(repo, 'test'), env=env,
                   stdout=subprocess.DEVNULL, stderr=subprocess.DEVNULL)
    passed, failed = [], []
    for tc in ET.parse(xml).getroot().iter('testcase'):
        tid = f"{tc.get('classname')}::{tc.get('name')}"
        (failed if any(ch.tag in ('failure', 'error') for ch in tc) else passed).append(tid) if not any(ch.tag == 'skipped' for ch in tc) else None
json.dump({'passed': sorted(passed), 'failed': sorted(failed)}, open(out, 'w'), indent=0)
print(f'passed={len(passed)} failed={len(failed)}')
