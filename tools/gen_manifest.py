#!/usr/bin/env python3
"""Regenerate MANIFEST.json from the table below (single source of truth; run after adding a check)."""
import json, os, subprocess
HERE = os.path.dirname(os.path.dirname(os.path.abspath(__file__)))

NA = {
 'C01': 'pure function of the input text (dumps∘loads idempotence/canonicity): one schedule, zero fault sites - deciding it is input generation against an oracle, not simulation (DESIGN 2, 5)',
 'C02': 'pure fold over the rows of one input text; no state outlives the call, no schedule or fault to inject (DESIGN 5)',
 'C03': 'pure function of the document; needs a cell-level oracle over generated inputs, not a simulator (DESIGN 5)',
 'C04': 'relations between pure values of dumps under six option values; no history, schedule or fault (DESIGN 5)',
 'C05': 'pure function of (document, include, exclude) (DESIGN 5)',
 'C06': 'pure function of (document, spine ids, spine types) (DESIGN 5)',
 'C07': 'pure function of (document, a, b); the measure index is written once at import and only read (that it is only read is C14) (DESIGN 5)',
 'C08': 'pure function of (document, a, b) (DESIGN 5)',
 'C09': 'finite pure table (25,200 cases) decided by exhaustive enumeration against a second model = bounded checking, not seeded search over schedules (DESIGN 5)',
 'C10': 'finite pure table plus a pure function of the document (DESIGN 5)',
 'C11': 'finite pure algebra over 37 categories decided by enumeration (DESIGN 5)',
 'C13': 'composition law over pure values of dumps; "in any order" is the order of composing the oracle, not an order of events (DESIGN 5)',
 'C17': 'pure traversals of one document; no history or fault (DESIGN 5)',
 'C18': 'each non-kern importer builds a fresh parser per token: pure in (header, cell), no history (the history variant is covered under C12) (DESIGN 5)',
 'C19': 'pure in the fragment list (concat re-imports growing prefixes) (DESIGN 5)',
}

CHECKS = {
 'C12': dict(
   text='Seeded fault injection into the stateful importer: 0-4 cells of a generated document are replaced by malformed text (strict family that the lexer/parser must hit; lexable-tail family that is classified), placement biased to rows after *^/*v, sub-spines, barline rows, adjacent cells, last rows, second **kern spines and non-kern spines, optionally after blank lines; oracles: loads returns, exactly one error per malformed **kern/**root cell with the physical line number, every other token equal to the undamaged import, kern and eKern exports equal the undamaged export with exactly the damaged cells replaced, and a re-import of the clean text in the same process is unaffected. History runs feed one long-lived importer of every class <=40 valid/malformed tokens in two orders and compare each outcome with a fresh importer.  Fault vocabulary as built: unlexable characters incl. non-ASCII digits, truncated tokens, wrong order, bad chords, chords whose tree walk raises, garbage appended, separators, placeholder-like cells; documents include combined spine-operator rows, early-terminated spines, unterminated fragments; ~8% of the runs execute with warnings as errors. Added in the third session: a fifth of the damaged imports go through load() on the simulated OS (1-3-byte reads, EINTR, non-UTF-8 locale, a multi-byte character of a malformed cell placed exactly across the first I/O block boundary), re-entrant imports (a callback at a seeded line event of the damaged import imports another damaged text), interruption inside importer histories, unbroken runs of 26-60 malformed cells in one spine, the export by measures of the damaged document, strict mode and the deprecated create() compared with loads(), logging at DEBUG. Exploration: the placement/history space is sampled, not enumerated.',
   note='Trusted: kernpy on the undamaged text as the reference path (a consistently wrong import is invisible: that is C01-C03); the strict-family vocabulary really is unparseable (justified from the lexer alphabet and grammar, probed on the tree); the exporter drops rows whose exported cells are all placeholders. Two genuine defects are listed as known findings (prefix-accepted, separator-stripped) with matchers tied to the injected fault family and the exact observed shape.',
   technique='deterministic simulation: seeded corrupted-cell fault plans + token histories on long-lived importers vs undamaged reference run, ddmin-minimised replay',
   design='4.1', engine='sim-import'),
 'C15': dict(
   text='Seeded call histories (<=8 operations) over a pool of aliasing document handles - sources, clones, transposed results, results transposed again or back - with the cross-invariant "every live handle still exports (six encodings) what it exported when it was created" after every operation, and each result compared cell by cell with the source export in which only the pitch fields of the notes are replaced by an independent letter/semitone interval model. The 40 interval names x 2 directions are swept completely by every 80 consecutive runs. Faults: invalid interval/direction, intervals that become unspellable midway through the rewrite, and to_transposed interrupted at a seeded line event; a failed call must leave every handle as it was. Core configuration (single notes without explicit accidentals) is strict; accidentals, chords and note-like cells of **root/**mxhm are explored and matched to three known findings by exact shape. As built also: background traffic through the public pitch API with caller edits of what it returned, non-interned string arguments, unterminated fragments, scores longer than the recursion limit, measure-index exports of every handle, warnings as errors, logging at DEBUG, and re-entrancy: a callback at a seeded line event of to_transposed uses the public pitch API for another pitch (two transpositions in flight at once, no thread).',
   note='Trusted: the interval model (diatonic steps, semitones from quality and number); kernpy\'s export of the SOURCE as the frame against which the result is compared; pitches needing more than two accidentals are unconstrained; note cells are located through the generator\'s abstract document.',
   technique='deterministic simulation: seeded histories over aliasing document handles vs reference pitch model, cross-handle invariants, interruption faults, ddmin-minimised replay',
   design='4.3', engine='sim-history'),
 'C16': dict(
   text='Seeded search over call histories (8-30 operations) on ONE shared importer, ONE shared exporter and a pool of reused pitch objects, against an independent (letter, alteration, octave) <-> spelling model, with the invariant "every pool object still equals its model" after every operation; the 539-spelling grid is visited completely by every 539 consecutive runs (quick = 12 sweeps, thorough = 400). Faults: invalid spellings/arguments between valid calls and exports interrupted at a seeded line event. Exploration is the right level: the grid is finite and covered, the interleavings over shared objects are sampled. As built also: edits through the public setters and rejected edits, re-entrancy through factory-made codec objects at a seeded line event, the first export of a process interrupted at an absolute line event, warnings as errors, logging at DEBUG, a closed stderr, python -O (separate leg), codec objects used from a brand-new thread, the graphic (staff position) exporter under common and rare clefs and the American exporter as further readers of the pool objects, names in the documented # notation, pool objects made by the American importer.',
   note='Trusted: the Humdrum spelling rule as written in simkit-free model code in checks/c16.py; sys.monitoring delivering LINE events; objects returned by to_transposed are modelled by the same call on a fresh equal object.',
   technique='deterministic simulation: seeded call histories on shared mutable codec/pitch objects vs reference model, interruption faults, ddmin-minimised replay',
   design='4.4', engine='sim-history'),
}
 
CHECKS['C20'] = dict(
   text='The one property whose mechanism lives on the operating-system seam. kernpy (load, dump, kern_to_ekern, ekern_to_krn and the real CLI in single-file and directory mode, recursive or not) runs on a simulated OS: an in-memory tree behind builtins.open/io.open/os.stat/lstat/scandir/listdir/mkdir/getcwd, with the REAL CPython io stack on a fake raw file, so read/write chunk boundaries (inside multi-byte characters, between CR and LF), EINTR, EIO/ENOSPC at a byte or call, failing open/mkdir, listing order, the preferred encoding, a virtual cwd and a second actor (mkdir inside the exists->makedirs window, unlink between listing and open) are all decided by the seeded plan. Oracle: the in-memory API on the same text (documents with equal deep snapshots, error lists and exports; target bytes equal dumps(...).encode(locale); converter outputs equal the API export; kern->ekern->kern->ekern fixed point) plus a frame condition after every operation. Under an injected fault an operation may raise but never return normally with a wrong target; the next fault-free operation is strict again. As built the simulator also owns os.open and descriptor-level calls, io.FileIO, io.TextIOWrapper/locale, rename/replace/unlink, a logical mtime; the workload includes files of several I/O blocks, in-place edits, converting onto the input, blank lines, dot-files, stale longer outputs; the CLI is driven as python -m kernpy. Added in the third session: a narrow or closed stdout (the progress line may fail, the conversion may not), non-NFC input text, names and directories with glob metacharacters and an empty stem, inputs of exactly one I/O buffer, header-only inputs, a cell longer than the csv field limit (the reference is computed before the file is read), --output_path given in directory mode, logging at DEBUG, write faults that follow an implementation to the temporary file it writes next to the target.',
   note='Trusted: simfs models one POSIX-like tree (no symlinks, no permissions beyond injected errno); text-mode universal newlines are part of "the same input" for ekern2kern; crash consistency of a half-written target is not asserted (only reported); the reference is kernpy\'s own in-memory API, so a defect common to both paths is invisible.',
   technique='deterministic simulation: simulated file system/locale/external actor under the real io stack, seeded chunking + errno fault injection + interruption, in-memory API as reference model, ddmin-minimised replay',
   design='4.5', engine='sim-fs')

CHECKS['C14'] = dict(
   text='Seeded call histories (3-12 operations) on ONE live document - dumps with arbitrary options (six encodings, spine types/ids, include/exclude as set/list/tuple/single, valid and invalid measure ranges), dump/graph through the simulated OS, the deprecated export() re-using one options object, 35 kinds of queries (incl. copy.deepcopy, pickle, tree walks with a caller-supplied visitor, Token.export with a caller-supplied filter, Document.to_concat, the deprecated get_spine_types/store/store_graph) - interleaved with background traffic on process-global state (other imports clean and damaged, concat, pitch transposition, agnostic conversion, ExportOptions(), to_transposed of another document, long-lived importers). After EVERY operation: the normalised result equals that of the same operation on a copy imported at that moment and never touched before; the deep structural snapshot of the live document equals the one taken after import; the module constants equal their values at the start of the run; reused argument objects are unchanged; at time 0 and at the end a fixed 15-item battery on two imports must agree. Faults: calls built to raise, interruption at a seeded kernpy line event (SimInterrupt / MemoryError, ~35% of the runs), I/O faults on dump/graph targets.  As built also: re-entrant nested calls on other documents at a seeded line event, caller-owned argument objects reused and edited in place, results edited by the caller, short-lived background documents (identity reuse), a deferred-reference mode in which the live document makes its calls back to back, and a live document that stays cold until the first operation; ONE stdout object per run, sometimes a strict ascii/latin-1 text layer, which no read-only call may close; background file imports with canary texts whose import leans on process-wide reader settings; the same dump repeated after a failed one; module-level containers watched by discovery; logging at DEBUG. Exploration over histories; expected silent on a correct tree and earns its keep on mutants.',
   note='Trusted: kernpy itself on a fresh copy as the reference path (a read-only call that is consistently wrong is invisible); attributes whose name starts with "_" are outside the snapshot; interrupted calls only have to raise; no thread interleavings (kernpy promises no thread safety, C14 does not quantify over schedules).',
   technique='deterministic simulation: seeded read-only call histories vs freshly imported replica, deep-snapshot/constant/argument invariants after every step, interruption and I/O faults, ddmin-minimised replay',
   design='4.2', engine='sim-history')

PENDING = {}


def main():
    checks = []
    for pid in sorted(CHECKS):
        c = CHECKS[pid]
        checks.append({
            'property_id': pid,
            'quick_cmd': f'./check {pid} --tier quick',
            'thorough_cmd': f'./check {pid} --tier thorough',
            'evidence_file': f'/verif/evidence/{pid}.json',
            'replay_cmd_template': f'./check {pid} --replay {{path}}',
            'engine': c['engine'],
            'level_claimed': {'category': 'exploration', 'text': c['text'], 'design_ref': 'DESIGN.md section ' + c['design']},
            'level_note': c['note'],
            'technique': c['technique'],
        })
    na = [{'property_id': k, 'reason': v} for k, v in sorted(NA.items())]
    for k, v in sorted(PENDING.items()):
        na.append({'property_id': k, 'reason': v})
    man = {
        'version': 1,
        'setup_cmd': './setup.sh',
        'hooks': {
            'guard': 'KERNPY_VERIF',
            'enable': 'no hooks are needed: every seam (builtins.open / io.open / os.* for files, public constructors, sys.monitoring for interruption) is reachable from outside; KERNPY_VERIF is reserved and unused. Checks import kernpy from KERNPY_SRC (default /repo) working tree directly.',
            'baseline_off_cmd': 'cd /repo && /venv/bin/python -m pytest -ra -q -p no:cacheprovider --timeout=900 --continue-on-collection-errors',
            'source_commits': [],
            'add_only': True,
        },
        'engines': [
            {'name': 'sim-history', 'path': 'checks/c14.py checks/c15.py checks/c16.py + simkit/', 'serves_properties': ['C14', 'C15', 'C16'],
             'kind_free_text': 'seeded call histories on long-lived shared objects, reference models / fresh-copy reference path, interruption injector (sys.monitoring)'},
            {'name': 'sim-import', 'path': 'checks/c12.py + simkit/', 'serves_properties': ['C12'],
             'kind_free_text': 'fault isolation in the stateful importer: corrupted stored cells, token histories on long-lived spine importers'},
            {'name': 'sim-fs', 'path': 'checks/c20.py + simkit/simfs.py', 'serves_properties': ['C20'],
             'kind_free_text': 'simulated operating system: in-memory tree, fake raw files under the real CPython io stack, short reads/writes, errno faults, listing order, locale, external actor'},
        ],
        'checks': checks,
        'not_applicable': na,
        'notes': open(os.path.join(HERE, 'tools', 'manifest_notes.txt')).read().strip(),
    }
    with open(os.path.join(HERE, 'MANIFEST.json'), 'w') as f:
        json.dump(man, f, indent=1, ensure_ascii=False)
        f.write('\n')
    r = subprocess.run(['python3-vt', '-c', 'import json,jsonschema,sys; jsonschema.validate(json.load(open(sys.argv[1])), json.load(open("/root/.vp/MANIFEST.schema.json"))); print("MANIFEST valid")',
                        os.path.join(HERE, 'MANIFEST.json')])
    return r.returncode


if __name__ == '__main__':
    raise SystemExit(main())
