#!/venv/bin/python
"""Capture one minimised literal plan per known finding into known_examples/<finding-id>.json.

For each status=known entry of known_findings.json: scan runs of that property's check until a violation matched by that
finding's matcher appears, minimise it WITH THAT FINDING TREATED AS UNLISTED, and store the plan. The runner re-executes
these examples at the start of every batch (canaries): a finding stays tied to a specific input/history that fails.
usage: tools/capture_examples.py [finding-id ...]
"""
import importlib, json, os, sys
HERE = os.path.dirname(os.path.dirname(os.path.abspath(__file__)))
sys.path.insert(0, HERE); os.chdir(HERE)
from simkit import runner, seeds
from simkit.ddmin import Budget

def main():
    runner.bootstrap()
    data = json.load(open(runner.KNOWN_FILE, encoding='utf-8'))
    want = set(sys.argv[1:])
    os.makedirs(os.path.join(HERE, 'known_examples'), exist_ok=True)
    for e in data['findings']:
        if e.get('status') != 'known' or (want and e['id'] not in want):
            continue
        check = importlib.import_module('checks.' + e['property'].lower()).CHECK
        fn = check.MATCHERS[e['matcher']]
        others = [x for x in runner.load_known(e['property']) if x['id'] != e['id']]
        found = None
        for i in range(0, 6000):
            plan = check.gen_plan(0, i, 'quick')
            res = check.execute(plan)
            hits = [v for v in res['violations'] if fn(v, e.get('params') or {})]
            if hits:
                found = (i, plan, hits[0])
                break
        if not found:
            print('no example found for', e['id']); continue
        i, plan, v = found
        sig = v['signature']
        def still(p):
            r = runner.eval_isolated(check, others, [], p, sig)
            return r['hit'] is not None and fn(r['hit'], e.get('params') or {})
        small = check.shrink(plan, still, Budget(300))
        if not still(small):
            small = plan
        out = {'finding': e['id'], 'property': e['property'], 'signature': sig, 'found_at_run': i, 'plan': small}
        json.dump(out, open(os.path.join(HERE, 'known_examples', e['id'] + '.json'), 'w', encoding='utf-8'), indent=1, ensure_ascii=False)
        print('captured', e['id'], 'from run', i, 'signature', sig, 'summary:', json.dumps(check.summarize(small), ensure_ascii=False)[:300])

if __name__ == '__main__':
    main()
