#!/usr/bin/env python3
"""Copy a confirmed sub-agent change into /verif/seeded/<id>/ (patch.diff, demo.py, README.txt, meta.json).
usage: import_seeded.py <property> <worktree> <k> <short-name> "<needs>" """
import json, os, shutil, sys
prop, wt, k, name, needs = sys.argv[1:6]
src = os.path.join(wt, 'deliver', 'change' + k)
dst = os.path.join('/verif/seeded', f'{prop}-{name}')
os.makedirs(dst, exist_ok=True)
for f in ('patch.diff', 'demo.py', 'README.txt'):
    shutil.copy(os.path.join(src, f), os.path.join(dst, f))
# the demo refers to its worktree path; make it location independent
d = open(os.path.join(dst, 'demo.py'), encoding='utf-8').read().replace(wt, '${KERNPY_SRC}')
open(os.path.join(dst, 'demo.py'), 'w', encoding='utf-8').write(d)
meta = {'property': prop, 'origin': 'independent sub-agent given only the property text and a scratch worktree',
        'needs_to_manifest': needs,
        'confirmed': 'tools/confirm_seeded.sh: demo exits 0 without the patch and non-zero with it; pinned 276 stable tests stay green with it',
        'what_i_ran': f'tools/confirm_seeded.sh {wt} {src}; selftest/sensitivity.py {prop}-{name}',
        'demo_usage': 'PYTHONPATH=<tree> /venv/bin/python demo.py   (written for the sub-agent\'s worktree; paths replaced by ${KERNPY_SRC})'}
json.dump(meta, open(os.path.join(dst, 'meta.json'), 'w'), indent=1)
print('imported', dst)
