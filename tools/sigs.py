#!/venv/bin/python
"""Debug helper: run N plans of a check in-process and print one example per unlisted violation signature.
usage: tools/sigs.py C12 [runs] [start] [--sig substring]"""
import sys, os, json, importlib, collections
HERE = os.path.dirname(os.path.dirname(os.path.abspath(__file__)))
sys.path.insert(0, HERE); os.chdir(HERE)
from simkit import runner, seeds
args = [a for a in sys.argv[1:] if not a.startswith('--')]
prop = args[0].upper(); runs = int(args[1]) if len(args) > 1 else 200; start = int(args[2]) if len(args) > 2 else 0
want = sys.argv[sys.argv.index('--sig') + 1] if '--sig' in sys.argv else None
runner.bootstrap()
check = importlib.import_module('checks.' + prop.lower()).CHECK
known = runner.load_known(prop)
seen = collections.Counter()
for i in range(start, start + runs):
    plan = check.gen_plan(seeds.verif_seed(), i, 'quick')
    res = check.execute(plan)
    for v in res['violations']:
        if runner.classify(check, v, known):
            continue
        seen[v['signature']] += 1
        if seen[v['signature']] == 1 and (want is None or want in v['signature']):
            print('=' * 100); print('run', i, json.dumps({k: v[k] for k in ('class', 'signature', 'expected', 'actual', 'detail')}, ensure_ascii=False, default=str)[:1500])
            print(json.dumps(check.summarize(plan), ensure_ascii=False, default=str)[:3000])
print(dict(seen))
