#!/usr/bin/env python3
"""Run the pinned baseline suite on a kernpy tree and compare with BASELINE.json.

usage: baseline_check.py [repo_dir]     (default /repo)
exit 0 iff every test in BASELINE.stable_pass passes.  Prints tests that newly pass too.
"""
import json, os, subprocess, sys, tempfile
import xml.etree.ElementTree as ET

def main():
    repo = sys.argv[1] if len(sys.argv) > 1 else '/repo'
    base = json.load(open('/root/.vp/BASELINE.json'))
    stable = set(base['stable_pass'])
    with tempfile.TemporaryDirectory() as td:
        xml = os.path.join(td, 'r.xml')
        env = dict(os.environ)
        env.pop('KERNPY_VERIF', None)
        env['PYTHONPATH'] = repo
        subprocess.run(['/venv/bin/python', '-m', 'pytest', '-ra', '-q', '-p', 'no:cacheprovider',
                        '--timeout=900', '--continue-on-collection-errors', f'--junitxml={xml}'],
                       cwd=repo, env=env, stdout=subprocess.DEVNULL, stderr=subprocess.DEVNULL)
        passed = set()
        for tc in ET.parse(xml).getroot().iter('testcase'):
            if not any(ch.tag in ('failure', 'error', 'skipped') for ch in tc):
                passed.add(f"{tc.get('classname')}::{tc.get('name')}")
    missing = sorted(stable - passed)
    extra = sorted(passed - stable)
    print(f'stable_pass={len(stable)} passed_now={len(passed)} missing={len(missing)} newly_passing={len(extra)}')
    for m in missing:
        print('  MISSING', m)
    for e in extra:
        print('  new', e)
    return 1 if missing else 0

if __name__ == '__main__':
    sys.exit(main())
