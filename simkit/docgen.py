"""Workload generator: abstract Humdrum documents "of C01's grammar", rendered to text.

The document is built abstractly first (rows of cells, each cell knowing its kind, spine, and - for
notes - letter / octave / accidental / duration / signifiers) and rendered second, so a harness knows
what every cell is without asking kernpy.  Each generator class is justified from
kern/kernSpineParser.g4 and kernSpineLexer.g4, not from observed behaviour.

Swarm style: every document draws its own size bounds, spine mix and feature subset.
"""
from __future__ import annotations

import random
from . import seeds

KERN = '**kern'
NONKERN_HEADERS = ['**text', '**dynam', '**dyn', '**harm', '**mxhm', '**fing', '**root']
UNKNOWN_HEADERS = ['**foo', '**silbe', '**cdata']
EXPORTED_HEADERS = {'**mens', '**kern', '**text', '**harm', '**mxhm', '**root', '**dyn', '**dynam', '**fing'}

LETTERS = 'cdefgab'
# signifiers that never combine with a neighbour in the grammar (see DESIGN 4.5): each used at most once per note
SAFE_SIGS_POST = list("'~^`\"s;LJKk/\\)]_}:NjZOlV$SMmtTi")
SAFE_SIGS_PRE = list("([{")
COMBINING_SIGS = ['W', 'w', 'y', 'yy', 'x', 'xx', '?', '<', '>', 'X', '&(', '&)', 'TT', 'q', '??']

PLAIN_DURS = ['1', '2', '4', '8', '16', '32', '64', '0', '12', '6', '24']
RATIONAL_DURS = ['3%2', '2%3', '40%3', '12%5']

CLEFS = ['*clefG2', '*clefF4', '*clefC3', '*clefC1', '*clefC4', '*clefF3', '*clefC2', '*clefGv2', '*clefG^2', '*clefGvv2', '*clefF^4']
KEYSIGS = ['*k[]', '*k[f#]', '*k[b-]', '*k[f#c#]', '*k[b-e-]', '*k[f#c#g#]', '*k[b-e-a-]', '*k[f#c#g#d#]', '*k[b-e-a-d-g-]', '*kcancel', '*k[f#]X']
METERS = ['*M4/4', '*M3/4', '*M6/8', '*M2/2', '*M2/4', '*M12/8', '*M3+2/8', '*M5/4', '*M9/16', '*M4/4%2']
METSYMS = ['*met(c)', '*met(c|)', '*met(C)', '*met(O)', '*met(C|)', '*met(O.)', '*met(C3)']
KEYS = ['*C:', '*a:', '*G:', '*e:', '*F:', '*d:', '*B-:', '*f#:', '*E-:', '*c#:', '*?:', '*C:dor', '*d:dor', '*C/a:']
METRONOMES = ['*MM120', '*MM60', '*MM96', '*MM132', '*MM72.5']
STAFFS = ['*staff1', '*staff2', '*staff3', '*staff1/2', '*staff+1']
INSTRUMENTS = ['*Ipiano', '*Ivioln', '*I"Piano', '*Icemba', '*Iflt', '*I"Soprano', '*mI"Voice', '*I"Órgano', '*Iñu 2']
SECTIONS = ['*>A', '*>B', '*>[A,B]', '*>norep[A,B]', '*>1st ending', '*>A1']
OTHER_TANDEMS = ['*tb8', '*tb16', '*part1', '*group1', '*lh', '*rh', '*above', '*below', '*below2', '*centered', '*ped', '*Xped',
                 '*8va', '*X8va', '*8ba', '*Trd1c2', '*ITrd-1c-2', '*rscale:2', '*rscale:1/2', '*cue', '*Xcue', '*tuplet', '*Xtuplet',
                 '*tremolo', '*Xtremolo', '*solo', '*accomp', '*strophe', '*S/sic', '*S/ossia', '*S/fin', '*S-', '*ela', '*tstart', '*tend']
BBOXES = ['*xywh-1:10,20,300,40', '*xywh-1:15,80,290,45', '*xywh-2:0,0,100,100', '*xywh-p3:1,2,3,4']
BARLINE_TYPES = ['', '', '', '||', '|!', ':|!', '!|:', ':|!|:', ':!:', ':!!:', '|:', '|!:', '=', ':||:']

LYRICS_ASCII = ['la', 'Ky-', '-ri-', '-e', 'e-', 'lei-', 'son', 'A-', 'men', 'glo-', 'ri-', 'a', 'De', 'o', 'in', 'ex-', 'cel-', 'sis', 'the', 'Lord', "o'er", 'a b', 'x,y', 'do re', 'Hal-', 'le-', 'lu-', 'ia', 'no;', 'si?', '(la)', 'fa_', 'mi|']
LYRICS_LATIN1 = ['señor', 'Größe', 'cœur', 'ré', 'à', 'Ñu', 'façon', 'über', 'ß', 'él', 'niño', 'þú']
LYRICS_WIDE = ['歌', 'うた', '愛の', '노래', 'песня', 'Ωδή', '𝄞', '𝅘𝅥𝅮la', '😀', 'שיר']
DYNAMS = ['p', 'f', 'mf', 'mp', 'pp', 'ff', 'sf', 'fp', '<', '>', '(', ')', '[', ']', 'cresc.', 'dim.', 'X', 'z']
HARMS = ['I', 'V', 'V7', 'IV', 'ii6', 'viio', 'I64', 'Vb', '-VI', 'N6', 'Gn', 'V/V', 'i', 'iv', '~I']
MXHMS = ['none', 'h7', 'o7', 'sus4', 'unison', 'undef', 'none x', 'o', 'hdim7', 'Ø7', 'º7']          # first character cannot start a **kern token (h, n, o, u, s+u)
MXHMS_NOTELIKE = ['major', 'maj7', 'N.C.', 'root', 'C major', 'G7', 'A minor', 'D dominant', 'F major-seventh', 'Bb', 'C/E', 'Am7', '4c', 'g', '2.A']  # realistic chord symbols start with a pitch letter
FINGS = ['1', '2', '3', '4', '5', '1 3', '2 4', '1 3 5', '5-1', '3x']
ROOTS = ['C', 'G', 'D', 'A', 'E', 'F', 'B-', 'c', 'g', 'd', 'a', 'e', 'f', 'b-', 'F#', 'f#']   # valid **kern notes without duration
OTHERS = ['foo', 'bar', 'x1', '42', 'a=b', 'data', '[x]', 'Z9']
QUOTE_CELLS = ['"la', '"a b"', 'x"y', '"', '"one', 'say "hi"']
ULS_CELLS = ['a\u0085b', 'x y', 'p q', 'f\x0cg', 'v\x0bw', 'r\x1cs', 'r\x1ds', 'r\x1es']


class Cell:
    __slots__ = ('text', 'kind', 'spine', 'meta')

    def __init__(self, text, kind, spine, meta=None):
        self.text, self.kind, self.spine, self.meta = text, kind, spine, meta

    def to_json(self):
        d = {'t': self.text, 'k': self.kind, 's': self.spine}
        if self.meta:
            d['m'] = self.meta
        return d

    @staticmethod
    def from_json(d):
        return Cell(d['t'], d['k'], d['s'], d.get('m'))


class Row:
    __slots__ = ('kind', 'cells')

    def __init__(self, kind, cells):
        self.kind, self.cells = kind, cells

    def text(self):
        return '\t'.join(c.text for c in self.cells)

    def to_json(self):
        return {'kind': self.kind, 'cells': [c.to_json() for c in self.cells]}

    @staticmethod
    def from_json(d):
        return Row(d['kind'], [Cell.from_json(c) for c in d['cells']])


class Doc:
    def __init__(self, headers, rows, features=None):
        self.headers = headers
        self.rows = rows
        self.features = features or {}

    def render(self, eol='\n', final_newline=True):
        s = eol.join(r.text() for r in self.rows)
        return s + (eol if final_newline else '')

    def lines(self):
        return [r.text() for r in self.rows]

    def to_json(self):
        return {'headers': self.headers, 'rows': [r.to_json() for r in self.rows], 'features': self.features}

    @staticmethod
    def from_json(d):
        return Doc(d['headers'], [Row.from_json(r) for r in d['rows']], d.get('features'))

    def shape(self):
        """Abstract shape used for the distinctness measure: headers + per-row (kind, cell kinds)."""
        return [self.headers, [(r.kind, [c.kind for c in r.cells]) for r in self.rows]]

    def consistent(self):
        """Does the abstract annotation (which spine each cell belongs to) agree with the text's own spine operators?
        Minimisers drop rows; a candidate whose annotation no longer matches its text is not a document of this generator."""
        cols = None
        for r in self.rows:
            if r.kind == 'global':
                if len(r.cells) != 1:
                    return False
                continue
            if r.kind == 'header':
                if cols is not None or [c.text for c in r.cells] != list(self.headers):
                    return False
                cols = list(range(len(self.headers)))
                continue
            if cols is None or len(r.cells) != len(cols) or [c.spine for c in r.cells] != cols:
                return False
            if r.kind in ('ops', 'term'):
                new = []
                i = 0
                while i < len(cols):
                    t = r.cells[i].text
                    if t == '*^':
                        new += [cols[i], cols[i]]
                    elif t == '*-':
                        pass
                    elif t == '*v':
                        j = i
                        while j + 1 < len(cols) and r.cells[j + 1].text == '*v' and cols[j + 1] == cols[i]:
                            j += 1
                        if j == i:
                            return False        # a lone *v joins nothing
                        new.append(cols[i])
                        i = j
                    elif t == '*':
                        new.append(cols[i])
                    else:
                        return False
                    i += 1
                cols = new
            else:
                if any(c.text in ('*^', '*v', '*-', '*+', '*x') for c in r.cells):
                    return False
        return cols is not None

    def header_of(self, cell):
        return self.headers[cell.spine] if cell.spine is not None and cell.spine >= 0 else None

    def data_cells(self):
        """(row_index, col_index, cell) of every cell below the header that is not a spine operator / global."""
        out = []
        for ri, r in enumerate(self.rows):
            if r.kind in ('global', 'header', 'ops', 'term'):
                continue
            for ci, c in enumerate(r.cells):
                out.append((ri, ci, c))
        return out


# ------------------------------------------------------------------------------------------------
# token generators
# ------------------------------------------------------------------------------------------------

def spell(letter: str, octave: int) -> str:
    return letter.lower() * (octave - 3) if octave >= 4 else letter.upper() * (4 - octave)


def gen_duration(rng, F):
    """-> (text, meta). duration: modernDuration augmentationDot* (graceNote | appoggiatura)?"""
    kind = seeds.weighted(rng, [('plain', 10), ('dotted', 3 if F['dotted'] else 0), ('rational', 1 if F['rational'] else 0),
                                ('grace', 1 if F['grace'] else 0), ('appog', 0.5 if F['grace'] else 0), ('none', 0.3 if F['grace'] else 0)])
    if kind == 'none':
        return '', {'dur': '', 'dots': 0, 'grace': ''}
    base = rng.choice(RATIONAL_DURS) if kind == 'rational' else rng.choice(PLAIN_DURS)
    dots = rng.choice([1, 1, 2]) if kind == 'dotted' else 0
    grace = rng.choice(['q', 'q', 'qq']) if kind == 'grace' else rng.choice(['p', 'P']) if kind == 'appog' else ''
    return base + '.' * dots + grace, {'dur': base, 'dots': dots, 'grace': grace}


def gen_sigs(rng, F):
    """-> (pre, post) lists of signifier strings: any subset, each once, from the non-combining alphabet."""
    if not F['signifiers'] or rng.random() < 0.45:
        return [], []
    pre = [s for s in SAFE_SIGS_PRE if rng.random() < 0.12]
    k = rng.choice([1, 1, 1, 2, 2, 3, 4])
    post = rng.sample(SAFE_SIGS_POST, k)
    # 'T' and 't' (trill vs bar-crossing) and 'M'/'m' are single alternatives; keep at most one of each pair
    for a, b in (('T', 't'), ('M', 'm'), ('S', '$'), ('L', 'J'), ('K', 'k'), ('/', '\\')):
        if a in post and b in post:
            post.remove(b)
    return pre, post


def gen_note(rng, F, octave_range=(2, 6), force_no_acc=False):
    letter = rng.choice(LETTERS)
    octave = rng.randint(*octave_range)
    dur, dmeta = gen_duration(rng, F)
    acc = ''
    disp = ''
    if F['accidentals'] and not force_no_acc and rng.random() < 0.35:
        acc = rng.choice(['#', '-', '#', '-', '##', '--', 'n'])
        if F['acc_display'] and rng.random() < 0.25:
            disp = rng.choice(['x', 'X', 'i', 'I', 'j', 'Z', 'y', 'yy', 'Y', 'YY'])
    pre, post = gen_sigs(rng, F)
    if F.get('no_display_sigs'):
        post = [s for s in post if s not in ('x', 'X', 'i', 'I', 'j', 'Z', 'y', 'Y')]
    if acc and not disp:
        # the eight alterationDisplay characters directly after an accidental would be read as its display suffix:
        # they are generated only on notes without accidental (C01's quantifier)
        post = [s for s in post if s not in ('x', 'X', 'i', 'I', 'j', 'Z', 'y', 'Y')]
    combining = []
    if F['combining_sigs'] and rng.random() < 0.3:
        combining = [rng.choice(COMBINING_SIGS)]
    text = ''.join(pre) + dur + spell(letter, octave) + acc + disp + ''.join(post) + ''.join(c for c in combining if not c.startswith('&'))
    if combining and combining[0].startswith('&'):
        text = combining[0] + text if combining[0] == '&(' else text + combining[0]
    meta = {'letter': letter, 'oct': octave, 'acc': acc, 'disp': disp, 'pre': pre, 'post': post, 'comb': combining}
    meta.update(dmeta)
    return text, meta


def gen_rest(rng, F):
    dur, dmeta = gen_duration(rng, F)
    if not dur:
        dur, dmeta = '4', {'dur': '4', 'dots': 0, 'grace': ''}
    tail = rng.choice(['', '', '', ';', 'r']) if F['signifiers'] else ''
    text = dur + 'r' + tail
    meta = {'rest': True, 'tail': tail}
    meta.update(dmeta)
    return text, meta


def gen_chord(rng, F):
    n = rng.choice([2, 2, 3, 3, 4])
    parts, metas = [], []
    dur, dmeta = gen_duration(rng, F)
    if not dur:
        dur, dmeta = '4', {'dur': '4', 'dots': 0, 'grace': ''}
    for _ in range(n):
        # the notes of a chord share their signifiers after import, so a display-suffix character on one note would land
        # behind the accidental of another: in chords those eight characters are generated only when no note has an accidental
        t, m = gen_note(rng, dict(F, grace=False, dotted=False, rational=False, combining_sigs=False, no_display_sigs=F['accidentals']))
        # all chord notes carry the chord's duration
        body = t[len(''.join(m['pre'])) + len(m['dur']):]
        t = ''.join(m['pre']) + dur + body
        m.update(dmeta)
        parts.append(t)
        metas.append(m)
    return ' '.join(parts), {'chord': metas}


def kern_data_cell(rng, F, spine):
    kind = seeds.weighted(rng, [('note', 10), ('rest', 2), ('chord', 2 if F['chords'] else 0), ('null', 2)])
    if kind == 'note':
        t, m = gen_note(rng, F)
        return Cell(t, 'note', spine, m)
    if kind == 'rest':
        t, m = gen_rest(rng, F)
        return Cell(t, 'rest', spine, m)
    if kind == 'chord':
        t, m = gen_chord(rng, F)
        return Cell(t, 'chord', spine, m)
    return Cell('.', 'null', spine)


def nonkern_data_cell(rng, F, spine, header):
    if rng.random() < 0.25:
        return Cell('.', 'null', spine)
    if header == '**text':
        pool = LYRICS_ASCII
        r = rng.random()
        if F['nonascii'] and r < 0.35:
            pool = LYRICS_LATIN1 if r < 0.2 else LYRICS_WIDE
        if F['quote_cells'] and rng.random() < 0.2:
            pool = QUOTE_CELLS
        if F['uls_cells'] and rng.random() < 0.2:
            pool = ULS_CELLS
        return Cell(rng.choice(pool), 'lyric', spine)
    if header in ('**dynam', '**dyn'):
        return Cell(rng.choice(DYNAMS), 'dynam', spine)
    if header == '**harm':
        return Cell(rng.choice(HARMS), 'harm', spine)
    if header == '**mxhm':
        if F['notelike_nonkern'] and rng.random() < 0.4:
            return Cell(rng.choice(MXHMS_NOTELIKE), 'notelike', spine)
        return Cell(rng.choice(MXHMS), 'mxhm', spine)
    if header == '**fing':
        return Cell(rng.choice(FINGS), 'fing', spine)
    if header == '**root':
        if F['notelike_nonkern'] or True:
            # a **root spine is parsed by the **kern importer: its cells must be valid **kern tokens
            t = rng.choice(ROOTS)
            d = rng.choice(['', '4', '2', '2.', '1']) if F['dotted'] else rng.choice(['', '4', '2', '1'])
            letter = t[0].lower()
            return Cell(d + t, 'rootnote', spine, {'letter': letter, 'oct': 4 if t[0].islower() else 3, 'acc': t[1:], 'dur': d.rstrip('.'), 'dots': d.count('.'), 'grace': '',
                                                 'disp': '', 'pre': [], 'post': [], 'comb': []})
    pool = OTHERS
    if F['nonascii'] and rng.random() < 0.2:
        pool = LYRICS_LATIN1
    return Cell(rng.choice(pool), 'other', spine)


# ------------------------------------------------------------------------------------------------
# document generator
# ------------------------------------------------------------------------------------------------

DEFAULT_FEATURES = dict(splits=True, nested_splits=True, chords=True, accidentals=True, acc_display=True, signifiers=True,
                        combining_sigs=False, dotted=True, rational=True, grace=True, nonascii=True, quote_cells=False,
                        uls_cells=False, notelike_nonkern=False, global_comments=True, field_comments=True, bboxes=True,
                        hidden_barlines=True, tandems=True, unknown_header=True, open_split_at_end=True, null_rows=True,
                        pre_header_comments=True, measure_numbers=True, combined_ops=True, early_terminate=True, unterminated=True)


def swarm_features(rng, **overrides):
    """Each run draws its own feature subset (swarm testing)."""
    F = {}
    for k, v in DEFAULT_FEATURES.items():
        F[k] = bool(v) and rng.random() < 0.7
    F.update(overrides)
    return F


def gen_doc(rng: random.Random, F: dict | None = None, max_spines=4, max_rows=25, min_measures=0, kern_only=False, exclude_headers=()) -> Doc:
    F = dict(DEFAULT_FEATURES if F is None else F)
    n_spines = rng.choice([1, 1, 2, 2, 2, 3, 3, 4][:max(1, 2 * max_spines)])
    n_spines = min(n_spines, max_spines)
    headers = []
    for i in range(n_spines):
        if kern_only or rng.random() < 0.55:
            headers.append(KERN)
        elif F['unknown_header'] and rng.random() < 0.12:
            headers.append(rng.choice(UNKNOWN_HEADERS))
        else:
            headers.append(rng.choice([h for h in NONKERN_HEADERS if h not in exclude_headers]))
    if KERN not in headers:
        headers[rng.randrange(n_spines)] = KERN
    rows = []

    def glob(text):
        rows.append(Row('global', [Cell(text, 'global', -1)]))

    if F['pre_header_comments'] and F['global_comments']:
        for _ in range(rng.choice([0, 0, 1, 2])):
            glob(rng.choice(['!!!COM: Bach, J. S.', '!!!OTL: Test', '!! a comment', '!!!voices: 2', '!!!ENC: señor X']) if F['nonascii']
                 else rng.choice(['!!!COM: Bach, J. S.', '!!!OTL: Test', '!! a comment', '!!!voices: 2']))
    rows.append(Row('header', [Cell(h, 'header', i) for i, h in enumerate(headers)]))
    cols = list(range(n_spines))         # spine index of each live column
    depth = [0] * n_spines               # split depth of each live column

    def interp_row(make):
        cells = []
        for ci, sp in enumerate(cols):
            cells.append(make(ci, sp))
        rows.append(Row('interp', cells))

    def per_spine_tandem(pool, kind, nonkern_prob=0.3):
        choice_per_spine = {}
        def make(ci, sp):
            if sp not in choice_per_spine:
                if headers[sp] == KERN or rng.random() < nonkern_prob:
                    choice_per_spine[sp] = rng.choice(pool)
                else:
                    choice_per_spine[sp] = '*'
            t = choice_per_spine[sp]
            return Cell(t, kind if t != '*' else 'null_interp', sp)
        interp_row(make)

    if F['global_comments'] and rng.random() < 0.2:
        glob('!! after header')
    if F['tandems']:
        order = []
        if rng.random() < 0.5:
            order.append((STAFFS, 'staff'))
        if rng.random() < 0.4:
            order.append((INSTRUMENTS, 'instr'))
        if rng.random() < 0.85:
            order.append((CLEFS, 'clef'))
        if rng.random() < 0.6:
            order.append((KEYSIGS, 'keysig'))
        if rng.random() < 0.3:
            order.append((KEYS, 'key'))
        if rng.random() < 0.6:
            order.append((METERS, 'meter'))
        if rng.random() < 0.25:
            order.append((METSYMS, 'metsym'))
        if rng.random() < 0.2:
            order.append((METRONOMES, 'metronome'))
        if F['bboxes'] and rng.random() < 0.15:
            order.append((BBOXES, 'bbox'))
        for pool, kind in order:
            per_spine_tandem(pool, kind)
    elif rng.random() < 0.5:
        per_spine_tandem(CLEFS, 'clef')

    n_body = rng.randint(3, max(4, max_rows - len(rows) - 3))
    measure_no = 1
    produced_measures = 0

    def bar_row(final=False):
        nonlocal measure_no, produced_measures
        num = str(measure_no) if (F['measure_numbers'] and rng.random() < 0.8 and not final) else ''
        if num and rng.random() < 0.06:
            num += rng.choice(['a', 'b'])          # barline: number (a? b?)
        typ = rng.choice(BARLINE_TYPES) if not final else ''
        hidden = '-' if (F['hidden_barlines'] and rng.random() < 0.08 and not final) else ''
        extra = rng.choice(['', '', '', '', ';']) if typ in ('', '||') and not hidden else ''
        txt = ('==' if final else '=') + num + hidden + typ + extra
        rows.append(Row('bar', [Cell(txt, 'bar', sp, {'hidden': bool(hidden)}) for sp in cols]))
        measure_no += 1
        produced_measures += 1

    def data_row():
        cells = []
        for ci, sp in enumerate(cols):
            if headers[sp] == KERN:
                cells.append(kern_data_cell(rng, F, sp))
            else:
                cells.append(nonkern_data_cell(rng, F, sp, headers[sp]))
        if not F['null_rows'] and all(c.kind == 'null' for c in cells):
            ks = [i for i, sp in enumerate(cols) if headers[sp] == KERN]
            i = rng.choice(ks)
            t, m = gen_note(rng, F)
            cells[i] = Cell(t, 'note', cols[i], m)
        rows.append(Row('data', cells))

    def ops_row(op_at: dict):
        rows.append(Row('ops', [Cell(op_at.get(ci, '*'), 'op' if ci in op_at else 'null_interp', sp) for ci, sp in enumerate(cols)]))

    def do_split():
        cands = [ci for ci, sp in enumerate(cols) if headers[sp] == KERN and depth[ci] < (2 if F['nested_splits'] else 1)]
        if not cands or len(cols) >= 6:
            return False
        ci = rng.choice(cands)
        ops_row({ci: '*^'})
        sp, d = cols[ci], depth[ci]
        cols[ci:ci + 1] = [sp, sp]
        depth[ci:ci + 1] = [d + 1, d + 1]
        return True

    def join_candidates():
        return [ci for ci in range(len(cols) - 1) if cols[ci] == cols[ci + 1] and depth[ci] > 0 and depth[ci + 1] > 0]

    def do_join():
        cands = join_candidates()
        if not cands:
            return False
        ci = rng.choice(cands)
        ops_row({ci: '*v', ci + 1: '*v'})
        d = max(1, min(depth[ci], depth[ci + 1])) - 1
        cols[ci:ci + 2] = [cols[ci]]
        depth[ci:ci + 2] = [d]
        return True

    def do_combined():
        """One spine-operator row that changes the layout of SEVERAL spines at once - a join here, a split or a terminator there -
        so that columns shift while the column count may stay the same (legal: every column carries its own operator)."""
        joins = join_candidates()
        splits = [ci for ci, sp in enumerate(cols) if headers[sp] == KERN and depth[ci] < 2]
        terms = [ci for ci, sp in enumerate(cols) if F['early_terminate'] and cols.count(sp) == 1 and len(set(cols)) > 1
                 and any(headers[s2] == KERN for s2 in cols if s2 != sp)]
        plan = {}
        if joins and rng.random() < 0.7:
            j = rng.choice(joins)
            plan[j] = '*v'
            plan[j + 1] = '*v'
        free_splits = [ci for ci in splits if ci not in plan]
        if free_splits and len(cols) < 6 and rng.random() < 0.8:
            plan[rng.choice(free_splits)] = '*^'
        free_terms = [ci for ci in terms if ci not in plan]
        if free_terms and rng.random() < 0.5:
            plan[rng.choice(free_terms)] = '*-'
        kinds = set(plan.values())
        if len(kinds) < 2:
            return False
        ops_row(plan)
        new_cols, new_depth = [], []
        ci = 0
        while ci < len(cols):
            op = plan.get(ci)
            if op == '*^':
                new_cols += [cols[ci], cols[ci]]
                new_depth += [depth[ci] + 1, depth[ci] + 1]
            elif op == '*-':
                pass
            elif op == '*v' and plan.get(ci + 1) == '*v':
                new_cols.append(cols[ci])
                new_depth.append(max(1, min(depth[ci], depth[ci + 1])) - 1)
                ci += 1
            else:
                new_cols.append(cols[ci])
                new_depth.append(depth[ci])
            ci += 1
        cols[:] = new_cols
        depth[:] = new_depth
        return True

    if rng.random() < 0.8:
        bar_row()
    body = 0
    since_bar = 0
    while body < n_body:
        r = rng.random()
        if F['splits'] and F['combined_ops'] and r < 0.035 and do_combined():
            data_row()
            body += 2
            continue
        if F['splits'] and r < 0.10 and do_split():
            data_row()
            body += 2
            continue
        if join_candidates() and r < 0.30:
            do_join()
            body += 1
            continue
        if r < 0.40 and since_bar >= 1:
            bar_row()
            since_bar = 0
            body += 1
            continue
        if F['field_comments'] and r < 0.45:
            marked = rng.randrange(len(cols))
            rows.append(Row('fcomment', [Cell('!' + rng.choice(['note', 'check this', 'ed.', 'x y']) if ci == marked or rng.random() < 0.2 else '!', 'fcomment', sp)
                                         for ci, sp in enumerate(cols)]))
            body += 1
            continue
        if F['global_comments'] and r < 0.48:
            glob(rng.choice(['!! mid comment', '!!!RDF**kern: i=editorial', '!!LO:TX:a:t=dolce']))
            body += 1
            continue
        if F['tandems'] and r < 0.56:
            pool, kind = rng.choice([(CLEFS, 'clef'), (KEYSIGS, 'keysig'), (METERS, 'meter'), (OTHER_TANDEMS, 'tandem'), (SECTIONS, 'section'),
                                     (KEYS, 'key'), (OTHER_TANDEMS, 'tandem'), (METSYMS, 'metsym')])
            per_spine_tandem(pool, kind, nonkern_prob=0.15)
            body += 1
            continue
        data_row()
        since_bar += 1
        body += 1
    while produced_measures < min_measures:
        data_row()
        bar_row()
    # close
    leave_open = F['open_split_at_end'] and rng.random() < 0.15
    if not leave_open:
        while join_candidates():
            do_join()
    if rng.random() < 0.5:
        bar_row(final=True)
    if F['unterminated'] and rng.random() < 0.08:
        data_row()          # a fragment: the last row is a data row, the spines are not closed by *-
    else:
        rows.append(Row('term', [Cell('*-', 'op', sp) for sp in cols]))
    if F['global_comments'] and rng.random() < 0.25:
        glob(rng.choice(['!!!EED: someone', '!! end', '!!!ONB: done']))
    return Doc(headers, rows, F)


def gen_core_doc(rng, **kw):
    """A document restricted to what every claimed check treats as the strict core."""
    F = swarm_features(rng, combining_sigs=False, quote_cells=False, uls_cells=False, notelike_nonkern=False)
    return gen_doc(rng, F, **kw)


def gen_long_doc(rng, rows=1100):
    """A long score (more rows than Python's default recursion limit): one or two **kern spines of plain notes and rests with a
    barline every few rows. Cheap to generate; used rarely, to reach code whose depth grows with the length of the score."""
    nk = rng.choice([1, 1, 2])
    headers = [KERN] * nk
    F = dict(DEFAULT_FEATURES, accidentals=False, chords=False, signifiers=rng.random() < 0.5, combining_sigs=False, dotted=False,
             rational=False, grace=False)
    out = [Row('header', [Cell(KERN, 'header', i) for i in range(nk)]),
           Row('interp', [Cell('*clefG2', 'clef', i) for i in range(nk)]),
           Row('interp', [Cell('*M4/4', 'meter', i) for i in range(nk)])]
    m = 1
    for r in range(rows):
        if r % 5 == 0:
            out.append(Row('bar', [Cell('=' + str(m), 'bar', i, {'hidden': False}) for i in range(nk)]))
            m += 1
        else:
            cells = []
            for i in range(nk):
                if rng.random() < 0.12:
                    t, meta = gen_rest(rng, F)
                    cells.append(Cell(t, 'rest', i, meta))
                else:
                    t, meta = gen_note(rng, F, octave_range=(3, 5))
                    cells.append(Cell(t, 'note', i, meta))
            out.append(Row('data', cells))
    out.append(Row('term', [Cell('*-', 'op', i) for i in range(nk)]))
    return Doc(headers, out, dict(F, long=True))
