"""simfs - the simulated operating system behind seam S1 (files, directories, streams, locale, a second actor).

An in-memory POSIX-like tree mounted at the virtual prefix ``/simfs``.  While mounted, ``builtins.open`` /
``io.open``, ``os.stat`` / ``lstat`` / ``scandir`` / ``listdir`` / ``mkdir`` / ``getcwd`` are replaced; paths outside the
prefix pass through to the real functions.  ``open`` builds the REAL CPython stack - TextIOWrapper over
BufferedReader/Writer/Random - on a ``FakeRaw(io.RawIOBase)``: incremental decoding, universal newlines, csv line
assembly, buffering, flush-on-close and EINTR retry are real code; only the "disk" is fake.

Everything the simulator decides (chunk sizes, fault instants, listing order, actor steps) comes from the plan
(a literal dict) and a PRNG seeded from the plan, so one plan is one exactly repeatable execution.
"""
from __future__ import annotations

import builtins
import errno
import io
import os
import posixpath
import random
import stat as statmod
import sys

PREFIX = '/simfs'

_REAL_FILEIO = io.FileIO
_REAL_TEXTIOWRAPPER = io.TextIOWrapper

_real = {
    'open': builtins.open, 'stat': os.stat, 'lstat': os.lstat, 'scandir': os.scandir, 'listdir': os.listdir,
    'mkdir': os.mkdir, 'getcwd': os.getcwd,
    'os_open': os.open, 'close': os.close, 'read': os.read, 'write': os.write, 'fstat': os.fstat, 'fsync': os.fsync,
    'ftruncate': os.ftruncate, 'lseek': os.lseek, 'rename': os.rename, 'replace': os.replace, 'remove': os.remove,
    'unlink': os.unlink, 'rmdir': os.rmdir, 'access': os.access, 'utime': os.utime, 'chmod': os.chmod,
    'readlink': os.readlink,
}
FAKE_FD_BASE = 1 << 20


class _Node:
    __slots__ = ('kind', 'data', 'ino', 'mtime')

    def __init__(self, kind, ino):
        self.kind = kind          # 'dir' | 'file' | 'link' (symbolic link to a regular file; data = target path text)
        self.data = bytearray() if kind == 'file' else None
        self.ino = ino
        self.mtime = 0            # logical seconds; see SimFS.touch


class Fault:
    """One planned fault.  kind:
      eio_read      OSError(EIO) on read;      at = {'call': n} (n-th read call on a matching file) or {'byte': b}
      eintr_read    a signal interrupts the n-th read: the raw layer retries (PEP 475), the caller sees a one-byte transfer
      enospc_write  OSError(ENOSPC) on write   at = {'byte': b}            (sticky: a full disk stays full)
      eio_write     OSError(EIO) on write      at = {'byte': b}, sticky or one-shot
      eintr_write   the same for the n-th write
      open_error    OSError(errno) on open     errno name, at = {'call': n} n-th open of a matching path
      mkdir_error   OSError(EACCES) on mkdir
    ``path`` restricts the fault to one absolute simulated path (None = any)."""

    def __init__(self, spec: dict):
        self.kind = spec['kind']
        self.path = spec.get('path')
        self.at = dict(spec.get('at') or {})
        self.sticky = bool(spec.get('sticky', self.kind == 'enospc_write'))
        self.errno_name = spec.get('errno', 'EIO')
        self.mode = spec.get('mode')        # for open_error: restrict to 'r' or 'w' opens
        self.calls = 0
        self.fired = 0
        self.spent = False

    def matches(self, path):
        if self.path is None or self.path == path:
            return True
        # a write fault bound to a target also hits the temporary file an implementation writes NEXT TO that target before
        # renaming it (target + '.part', '.target.tmp', 'target~'): same directory, the target's name inside the file's name
        if self.kind in ('enospc_write', 'eio_write', 'eintr_write') and isinstance(path, str):
            d1, b1 = self.path.rsplit('/', 1) if '/' in self.path else ('', self.path)
            d2, b2 = path.rsplit('/', 1) if '/' in path else ('', path)
            return d1 == d2 and b1 in b2
        return False


class SimFS:
    def __init__(self, plan: dict | None = None, log=None):
        plan = plan or {}
        self.rng = random.Random(plan.get('io_seed', 0))
        self.chunking = plan.get('chunking', 'mixed')        # 'whole' | 'tiny' | 'small' | 'mixed'
        self.locale = plan.get('locale', 'utf-8')
        self.shuffle_listing = plan.get('shuffle_listing', True)
        self.faults = [Fault(f) for f in plan.get('faults', [])]
        self.actor_steps = [dict(s) for s in plan.get('actor', [])]
        self.nodes = {PREFIX: _Node('dir', 1)}
        self._ino = 1
        self.cwd = PREFIX
        self.log = log
        self.stats = {}            # what actually fired / happened (probes)
        self.escapes = []          # real-path I/O attempted from kernpy frames while mounted
        self._mounted = False
        self._fds = {}             # fake file descriptor -> FakeRaw (os.open and friends)
        self._next_fd = FAKE_FD_BASE
        self.seam_events = 0
        self.guard_root = None     # directory of the tree under test (escape detection)
        # logical modification time: 'frozen' = every write happens within the same second (the worst case for anything that
        # keys on mtime), 'ticking' = each modification is one second later than the previous one
        self.mtime_mode = plan.get('mtime', 'frozen')
        self.clock = 0

    def touch(self, node):
        if self.mtime_mode == 'ticking':
            self.clock += 1
        node.mtime = self.clock

    # ------------------------------------------------------------------ helpers
    def bump(self, key, n=1):
        self.stats[key] = self.stats.get(key, 0) + n

    def _emit(self, kind, args=None, outcome=None):
        self.seam_events += 1
        if self.log is not None:
            self.log.emit('os', kind, args, outcome)

    def resolve(self, path, follow=True):
        """-> absolute normalised simulated path, or None if the path is outside the simulated tree. A symbolic link in the FINAL
        component is followed (links to regular files only; that is all the simulator models) unless follow is False."""
        if isinstance(path, int):
            return None
        try:
            p = os.fspath(path)
        except TypeError:
            return None
        if isinstance(p, bytes):
            p = os.fsdecode(p)
        if not p.startswith('/'):
            p = posixpath.join(self.cwd, p)
            if p.startswith(PREFIX):
                self.bump('relative_path_via_virtual_cwd')
        p = posixpath.normpath(p)
        if p == PREFIX or p.startswith(PREFIX + '/'):
            if follow:
                hops = 0
                n = self.nodes.get(p)
                while n is not None and n.kind == 'link':
                    hops += 1
                    if hops > 8:
                        raise OSError(errno.ELOOP, os.strerror(errno.ELOOP), p)
                    p = posixpath.normpath(posixpath.join(posixpath.dirname(p), n.data))
                    n = self.nodes.get(p)
                    self.bump('symlink_followed')
            return p
        return None

    def symlink(self, p, target):
        """Harness accessor: make p a symbolic link whose text is ``target`` (relative to p's directory, or absolute)."""
        p = posixpath.normpath(p)
        self.mkdirs(posixpath.dirname(p))
        self._ino += 1
        n = self.nodes[p] = _Node('link', self._ino)
        n.data = target

    def links(self):
        return {p: n.data for p, n in self.nodes.items() if n.kind == 'link'}

    def sim_readlink(self, path, *, dir_fd=None):
        p = self.resolve(path, follow=False) if dir_fd is None else None
        if p is None:
            return _real['readlink'](path, dir_fd=dir_fd)
        n = self.nodes.get(p)
        if n is None:
            self._raise_missing(p)
        if n.kind != 'link':
            raise OSError(errno.EINVAL, os.strerror(errno.EINVAL), p)
        return n.data if isinstance(path, (str, os.PathLike)) and not isinstance(os.fspath(path), bytes) else os.fsencode(n.data)

    def _raise_missing(self, p):
        """p does not exist: ENOTDIR if some ancestor is a regular file, else ENOENT (as the kernel's path walk reports)."""
        q = posixpath.dirname(p)
        while q.startswith(PREFIX):
            a = self.nodes.get(q)
            if a is not None:
                if a.kind == 'file':
                    raise NotADirectoryError(errno.ENOTDIR, os.strerror(errno.ENOTDIR), p)
                break
            q = posixpath.dirname(q)
        raise FileNotFoundError(errno.ENOENT, os.strerror(errno.ENOENT), p)

    def _parent_check(self, p):
        parent = posixpath.dirname(p)
        n = self.nodes.get(parent)
        if n is None:
            # find whether some ancestor is a file -> ENOTDIR, else ENOENT
            q = parent
            while q and q != '/':
                m = self.nodes.get(q)
                if m is not None:
                    if m.kind == 'file':
                        raise NotADirectoryError(errno.ENOTDIR, os.strerror(errno.ENOTDIR), p)
                    break
                q = posixpath.dirname(q)
            raise FileNotFoundError(errno.ENOENT, os.strerror(errno.ENOENT), p)
        if n.kind != 'dir':
            raise NotADirectoryError(errno.ENOTDIR, os.strerror(errno.ENOTDIR), p)

    # ------------------------------------------------------------------ direct (harness / external actor) access
    def mkdirs(self, p):
        p = posixpath.normpath(p)
        parts = p[len(PREFIX):].strip('/').split('/') if p != PREFIX else []
        cur = PREFIX
        for part in parts:
            cur = cur + '/' + part
            if cur not in self.nodes:
                self._ino += 1
                self.nodes[cur] = _Node('dir', self._ino)

    def put(self, p, data: bytes):
        p = posixpath.normpath(p)
        self.mkdirs(posixpath.dirname(p))
        n = self.nodes.get(p)
        if n is None or n.kind != 'file':
            self._ino += 1
            n = self.nodes[p] = _Node('file', self._ino)
        n.data = bytearray(data)
        self.touch(n)

    def get(self, p):
        n = self.nodes.get(self.resolve(posixpath.normpath(p)) or posixpath.normpath(p))
        return bytes(n.data) if n is not None and n.kind == 'file' else None

    def remove(self, p):
        self.nodes.pop(posixpath.normpath(p), None)

    def exists(self, p):
        return posixpath.normpath(p) in self.nodes

    def is_dir(self, p):
        n = self.nodes.get(posixpath.normpath(p))
        return n is not None and n.kind == 'dir'

    def files(self):
        return {p: bytes(n.data) for p, n in self.nodes.items() if n.kind == 'file'}

    def dirs(self):
        return sorted(p for p, n in self.nodes.items() if n.kind == 'dir')

    def snapshot(self):
        return {'files': self.files(), 'dirs': self.dirs()}

    # ------------------------------------------------------------------ external actor
    def _actor(self, trigger, path):
        """Run the planned actor steps whose trigger matches this seam event."""
        for step in self.actor_steps:
            if step.get('done') or step['trigger'] != trigger:
                continue
            if step.get('path') not in (None, path):
                continue
            step['skip'] = step.get('skip', 0)
            if step['skip'] > 0:
                step['skip'] -= 1
                continue
            step['done'] = True
            act = step['act']
            if act == 'mkdir':          # create the directory that was just found missing (TOCTOU in _write)
                self.mkdirs(path)
                self.bump('actor_mkdir_race')
            elif act == 'unlink':       # delete a file between listing and opening
                target = step.get('target') or path
                if target in self.nodes and self.nodes[target].kind == 'file':
                    self.remove(target)
                    self.bump('actor_unlink')
            elif act == 'create':       # create an unrelated file
                self.put(step['target'], step.get('data', 'x').encode())
                self.bump('actor_unrelated_create')
            self._emit('actor:' + act, path)

    # ------------------------------------------------------------------ fault lookup
    def _fault(self, kinds, path, byte_lo=None, byte_hi=None, count_call=True):
        """Return the fault that fires now (or None).  byte range [lo, hi) = bytes this call would touch."""
        for f in self.faults:
            if f.kind not in kinds or f.spent or not f.matches(path):
                continue
            if 'call' in f.at:
                if count_call:
                    f.calls += 1
                if f.calls == f.at['call'] or (f.sticky and f.fired and f.calls > f.at['call']):
                    return f
            elif 'byte' in f.at and byte_lo is not None:
                if f.sticky and f.fired:
                    return f
                if byte_lo <= f.at['byte'] < byte_hi:
                    return f
        return None

    # ------------------------------------------------------------------ patched entry points
    def sim_open(self, file, mode='r', buffering=-1, encoding=None, errors=None, newline=None, closefd=True, opener=None):
        if isinstance(file, int) and file in self._fds:
            # io.open / os.fdopen on a descriptor obtained from the simulated os.open
            raw = self._fds[file]
            m = set(mode)
            binary = 'b' in m
            bufsize = io.DEFAULT_BUFFER_SIZE if buffering < 0 else buffering
            if not closefd:
                raw = _NoCloseRaw(raw)
            else:
                self._fds.pop(file, None)
            if buffering == 0:
                return raw
            if '+' in m:
                buf = io.BufferedRandom(raw, bufsize)
            elif m & set('wax'):
                buf = io.BufferedWriter(raw, bufsize)
            else:
                buf = io.BufferedReader(raw, bufsize)
            if binary:
                return buf
            if encoding is None or encoding == 'locale':      # os.fdopen passes io.text_encoding(None) == 'locale'
                encoding = self.locale
                self.bump('locale_default_encoding_used')
            text = _REAL_TEXTIOWRAPPER(buf, encoding, errors, newline, buffering == 1)
            text.mode = mode
            return text
        p = self.resolve(file)
        if p is None:
            self._guard('open', file)
            return _real['open'](file, mode, buffering, encoding, errors, newline, closefd, opener)
        if opener is not None:
            fd = opener(file, {'r': os.O_RDONLY, 'w': os.O_WRONLY | os.O_CREAT | os.O_TRUNC, 'a': os.O_WRONLY | os.O_CREAT | os.O_APPEND,
                               'x': os.O_WRONLY | os.O_CREAT | os.O_EXCL}[next(ch for ch in mode if ch in 'rwax')] | (os.O_RDWR if '+' in mode else 0))
            return self.sim_open(fd, mode, buffering, encoding, errors, newline, True, None)
        m = set(mode)
        binary = 'b' in m
        creating, writing, appending, reading, updating = 'x' in m, 'w' in m, 'a' in m, 'r' in m, '+' in m
        if sum((creating, writing, appending, reading)) != 1 or (m - set('xrwab+t')):
            raise ValueError(f'invalid mode: {mode!r}')
        if binary and (encoding is not None or errors is not None or newline is not None):
            raise ValueError("binary mode doesn't take encoding/errors/newline arguments")
        raw = FakeRaw(self, p, reading=reading or updating, writing=writing or appending or creating or updating,
                      create=writing or appending or creating, excl=creating, trunc=writing, append=appending, mode=mode)
        try:
            bufsize = io.DEFAULT_BUFFER_SIZE if buffering < 0 else buffering
            if buffering == 0:
                if not binary:
                    raise ValueError("can't have unbuffered text I/O")
                return raw
            if updating:
                buf = io.BufferedRandom(raw, bufsize)
            elif writing or appending or creating:
                buf = io.BufferedWriter(raw, bufsize)
            else:
                buf = io.BufferedReader(raw, bufsize)
            if binary:
                return buf
            if encoding is None or encoding == 'locale':      # os.fdopen passes io.text_encoding(None) == 'locale'
                encoding = self.locale
                self.bump('locale_default_encoding_used')
            text = _REAL_TEXTIOWRAPPER(buf, encoding, errors, newline, buffering == 1)
            text.mode = mode
            return text
        except Exception:
            raw.close()
            raise

    def sim_stat(self, path, *, dir_fd=None, follow_symlinks=True):
        p = self.resolve(path, follow=follow_symlinks) if dir_fd is None else None
        if p is None:
            return _real['stat'](path, dir_fd=dir_fd, follow_symlinks=follow_symlinks)
        n = self.nodes.get(p)
        if n is None:
            self._emit('stat', p, 'ENOENT')
            # an ancestor that is a regular file gives ENOTDIR
            q = posixpath.dirname(p)
            while q.startswith(PREFIX):
                a = self.nodes.get(q)
                if a is not None:
                    if a.kind == 'file':
                        raise NotADirectoryError(errno.ENOTDIR, os.strerror(errno.ENOTDIR), p)
                    break
                q = posixpath.dirname(q)
            self._actor('stat-missing', p)
            raise FileNotFoundError(errno.ENOENT, os.strerror(errno.ENOENT), p)
        self._emit('stat', p, n.kind)
        return self._stat_result(n)

    def sim_lstat(self, path, *, dir_fd=None):
        return self.sim_stat(path, dir_fd=dir_fd, follow_symlinks=False)

    @staticmethod
    def _stat_result(n):
        mode = (statmod.S_IFDIR | 0o755) if n.kind == 'dir' else (statmod.S_IFLNK | 0o777) if n.kind == 'link' else (statmod.S_IFREG | 0o644)
        size = 0 if n.kind == 'dir' else len(n.data)
        return os.stat_result((mode, n.ino, 99, 1, 0, 0, size, n.mtime, n.mtime, n.mtime))

    def _children(self, p):
        pre = p.rstrip('/') + '/'
        names = sorted(q[len(pre):] for q in self.nodes if q.startswith(pre) and '/' not in q[len(pre):] and q != p)
        if self.shuffle_listing and len(names) > 1:
            before = list(names)
            self.rng.shuffle(names)
            if names != before:
                self.bump('listing_order_non_sorted')
        return names

    def sim_listdir(self, path='.'):
        p = self.resolve(path)
        if p is None:
            return _real['listdir'](path)
        n = self.nodes.get(p)
        if n is None:
            self._raise_missing(p)
        if n.kind != 'dir':
            raise NotADirectoryError(errno.ENOTDIR, os.strerror(errno.ENOTDIR), p)
        names = self._children(p)
        self._emit('listdir', p, names)
        return names

    def sim_scandir(self, path='.'):
        p = self.resolve(path)
        if p is None:
            return _real['scandir'](path)
        n = self.nodes.get(p)
        if n is None:
            self._raise_missing(p)
        if n.kind != 'dir':
            raise NotADirectoryError(errno.ENOTDIR, os.strerror(errno.ENOTDIR), p)
        names = self._children(p)
        self._emit('scandir', p, names)
        given = os.fspath(path)
        entries = [_DirEntry(self, name, posixpath.join(given, name), p + '/' + name) for name in names]
        for e in entries:
            self._actor('listed', e._abs)
        return _ScandirIter(entries)

    def sim_mkdir(self, path, mode=0o777, *, dir_fd=None):
        p = self.resolve(path) if dir_fd is None else None
        if p is None:
            return _real['mkdir'](path, mode, dir_fd=dir_fd)
        f = self._fault(('mkdir_error',), p)
        if f is not None:
            f.fired += 1
            self.bump('fault_mkdir_EACCES')
            self._emit('mkdir', p, 'EACCES')
            raise PermissionError(errno.EACCES, os.strerror(errno.EACCES), p)
        self._parent_check(p)
        if p in self.nodes:
            self._emit('mkdir', p, 'EEXIST')
            raise FileExistsError(errno.EEXIST, os.strerror(errno.EEXIST), p)
        self._ino += 1
        self.nodes[p] = _Node('dir', self._ino)
        self._emit('mkdir', p, 'ok')
        self.bump('mkdir')

    def sim_getcwd(self):
        return self.cwd

    def _guard(self, what, path):
        """A real path touched while kernpy frames are on the stack = a forgotten seam."""
        if self.guard_root is None:
            return
        f = sys._getframe(2)
        depth = 0
        while f is not None and depth < 12:
            fn = f.f_code.co_filename
            if fn.startswith(self.guard_root):
                self.escapes.append(f'{what} {path!r} from {fn}:{f.f_lineno}')
                return
            f = f.f_back
            depth += 1

    # ------------------------------------------------------------------ descriptor-level and namespace operations
    def sim_os_open(self, path, flags, mode=0o777, *, dir_fd=None):
        p = self.resolve(path) if dir_fd is None else None
        if p is None:
            self._guard('os.open', path)
            return _real['os_open'](path, flags, mode, dir_fd=dir_fd)
        acc = flags & (os.O_RDONLY | os.O_WRONLY | os.O_RDWR)
        reading = acc in (os.O_RDONLY, os.O_RDWR)
        writing = acc in (os.O_WRONLY, os.O_RDWR)
        raw = FakeRaw(self, p, reading=reading, writing=writing, create=bool(flags & os.O_CREAT), excl=bool(flags & os.O_EXCL),
                      trunc=bool(flags & os.O_TRUNC) and writing, append=bool(flags & os.O_APPEND), mode='os.open')
        fd = self._next_fd
        self._next_fd += 1
        self._fds[fd] = raw
        self.bump('os_open_used')
        return fd

    def sim_close(self, fd):
        raw = self._fds.pop(fd, None)
        if raw is None:
            return _real['close'](fd)
        raw.close()

    def sim_read(self, fd, n):
        raw = self._fds.get(fd)
        if raw is None:
            return _real['read'](fd, n)
        buf = bytearray(n)
        k = raw.readinto(buf)
        return bytes(buf[:k or 0])

    def sim_write(self, fd, data):
        raw = self._fds.get(fd)
        if raw is None:
            return _real['write'](fd, data)
        return raw.write(data)

    def sim_fstat(self, fd):
        raw = self._fds.get(fd)
        if raw is None:
            return _real['fstat'](fd)
        return self._stat_result(raw._node)

    def sim_fsync(self, fd):
        if fd in self._fds:
            self.bump('fsync')
            return None
        return _real['fsync'](fd)

    def sim_ftruncate(self, fd, length):
        raw = self._fds.get(fd)
        if raw is None:
            return _real['ftruncate'](fd, length)
        raw.truncate(length)

    def sim_lseek(self, fd, pos, how):
        raw = self._fds.get(fd)
        if raw is None:
            return _real['lseek'](fd, pos, how)
        return raw.seek(pos, how)

    def _two(self, name, src, dst, src_dir_fd=None, dst_dir_fd=None):
        a = self.resolve(src, follow=False) if src_dir_fd is None else None
        b = self.resolve(dst, follow=False) if dst_dir_fd is None else None
        if a is None and b is None:
            return _real[name](src, dst, src_dir_fd=src_dir_fd, dst_dir_fd=dst_dir_fd)
        if a is None or b is None:
            raise OSError(errno.EXDEV, os.strerror(errno.EXDEV), os.fspath(src))       # across the real and the simulated tree
        # the kernel walks both parent paths first, then looks the source up, then checks the types
        self._parent_check(a)
        self._parent_check(b)
        n = self.nodes.get(a)
        if n is None:
            raise FileNotFoundError(errno.ENOENT, os.strerror(errno.ENOENT), a)
        t = self.nodes.get(b)
        if a == b:
            return None
        if n.kind == 'dir' and (b + '/').startswith(a + '/'):
            raise OSError(errno.EINVAL, os.strerror(errno.EINVAL), a)
        if t is not None:
            if t.kind == 'dir' and (a + '/').startswith(b + '/'):
                raise OSError(errno.ENOTEMPTY, os.strerror(errno.ENOTEMPTY), b)        # the target is an ancestor of the source
            if t.kind == 'dir' and n.kind != 'dir':
                raise IsADirectoryError(errno.EISDIR, os.strerror(errno.EISDIR), b)
            if t.kind != 'dir' and n.kind == 'dir':
                raise NotADirectoryError(errno.ENOTDIR, os.strerror(errno.ENOTDIR), b)
            if t.kind == 'dir' and any(q.startswith(b + '/') for q in self.nodes):
                raise OSError(errno.ENOTEMPTY, os.strerror(errno.ENOTEMPTY), b)
        if n.kind == 'dir':
            pre = a + '/'
            for q in [q for q in self.nodes if q.startswith(pre)]:
                self.nodes[b + '/' + q[len(pre):]] = self.nodes.pop(q)
        self.nodes[b] = self.nodes.pop(a)
        self._emit(name, [a, b], 'ok')
        self.bump('rename')

    def sim_rename(self, src, dst, *, src_dir_fd=None, dst_dir_fd=None):
        return self._two('rename', src, dst, src_dir_fd, dst_dir_fd)

    def sim_replace(self, src, dst, *, src_dir_fd=None, dst_dir_fd=None):
        return self._two('replace', src, dst, src_dir_fd, dst_dir_fd)

    def sim_unlink(self, path, *, dir_fd=None):
        p = self.resolve(path, follow=False) if dir_fd is None else None
        if p is None:
            return _real['unlink'](path, dir_fd=dir_fd)
        n = self.nodes.get(p)
        if n is None:
            self._raise_missing(p)
        if n.kind == 'dir':
            raise IsADirectoryError(errno.EISDIR, os.strerror(errno.EISDIR), p)
        del self.nodes[p]
        self._emit('unlink', p, 'ok')

    def sim_rmdir(self, path, *, dir_fd=None):
        p = self.resolve(path, follow=False) if dir_fd is None else None
        if p is None:
            return _real['rmdir'](path, dir_fd=dir_fd)
        n = self.nodes.get(p)
        if n is None:
            self._raise_missing(p)
        if n.kind != 'dir':
            raise NotADirectoryError(errno.ENOTDIR, os.strerror(errno.ENOTDIR), p)
        if any(q.startswith(p + '/') for q in self.nodes):
            raise OSError(errno.ENOTEMPTY, os.strerror(errno.ENOTEMPTY), p)
        del self.nodes[p]
        self._emit('rmdir', p, 'ok')

    def sim_access(self, path, mode, *, dir_fd=None, effective_ids=False, follow_symlinks=True):
        p = self.resolve(path) if dir_fd is None else None
        if p is None:
            return _real['access'](path, mode, dir_fd=dir_fd, effective_ids=effective_ids, follow_symlinks=follow_symlinks)
        return p in self.nodes

    def sim_utime(self, path, times=None, *, ns=None, dir_fd=None, follow_symlinks=True):
        p = self.resolve(path) if dir_fd is None and not isinstance(path, int) else None
        if p is None:
            if isinstance(path, int) and path in self._fds:
                return None
            return _real['utime'](path, times, ns=ns, dir_fd=dir_fd, follow_symlinks=follow_symlinks) if ns is not None else \
                _real['utime'](path, times, dir_fd=dir_fd, follow_symlinks=follow_symlinks)
        if p not in self.nodes:
            raise FileNotFoundError(errno.ENOENT, os.strerror(errno.ENOENT), p)
        if times is not None:
            self.nodes[p].mtime = int(times[1])

    def sim_chmod(self, path, mode, *, dir_fd=None, follow_symlinks=True):
        p = self.resolve(path) if dir_fd is None and not isinstance(path, int) else None
        if p is None:
            if isinstance(path, int) and path in self._fds:
                return None
            return _real['chmod'](path, mode, dir_fd=dir_fd, follow_symlinks=follow_symlinks)
        if p not in self.nodes:
            raise FileNotFoundError(errno.ENOENT, os.strerror(errno.ENOENT), p)

    # ------------------------------------------------------------------ mount
    def mount(self):
        return _Mount(self)


class _FileIOMeta(type):
    def __instancecheck__(cls, inst):
        return isinstance(inst, (_REAL_FILEIO, FakeRaw, _NoCloseRaw))

    def __subclasscheck__(cls, sub):
        return issubclass(sub, (_REAL_FILEIO, FakeRaw, _NoCloseRaw))


def _make_textiowrapper(fs):
    """io.TextIOWrapper while mounted: encoding None / 'locale' means the SIMULATED preferred encoding."""
    class SimTextIOWrapper(_REAL_TEXTIOWRAPPER):
        def __init__(self, buffer, encoding=None, errors=None, newline=None, line_buffering=False, write_through=False):
            if encoding is None or encoding == 'locale':
                encoding = fs.locale
                fs.bump('locale_default_encoding_used')
            super().__init__(buffer, encoding, errors, newline, line_buffering, write_through)
    SimTextIOWrapper.__name__ = 'TextIOWrapper'
    SimTextIOWrapper.__qualname__ = 'TextIOWrapper'
    return SimTextIOWrapper


def _make_fileio(fs):
    """io.FileIO while mounted: the raw layer of the simulator for simulated paths / descriptors, the real class otherwise."""
    class SimFileIO(metaclass=_FileIOMeta):
        def __new__(cls, file, mode='r', closefd=True, opener=None):
            if isinstance(file, int) and file in fs._fds:
                raw = fs._fds[file]
                if closefd:
                    return raw
                return _NoCloseRaw(raw)
            p = fs.resolve(file)
            if p is None:
                fs._guard('io.FileIO', file)
                return _REAL_FILEIO(file, mode, closefd, opener)
            m = set(mode) - {'b'}
            reading, writing, appending, creating, updating = 'r' in m, 'w' in m, 'a' in m, 'x' in m, '+' in m
            fs.bump('fileio_used')
            return FakeRaw(fs, p, reading=reading or updating, writing=writing or appending or creating or updating,
                           create=writing or appending or creating, excl=creating, trunc=writing, append=appending, mode=mode)
    return SimFileIO


class _Mount:
    def __init__(self, fs):
        self.fs = fs

    def __enter__(self):
        fs = self.fs
        if fs._mounted:
            raise RuntimeError('simfs already mounted')
        fs._mounted = True
        builtins.open = fs.sim_open
        io.open = fs.sim_open
        io.FileIO = _make_fileio(fs)
        io.TextIOWrapper = _make_textiowrapper(fs)
        import locale as _locale
        self._loc = (_locale.getpreferredencoding, getattr(_locale, 'getencoding', None))
        _locale.getpreferredencoding = lambda do_setlocale=True: fs.locale
        if self._loc[1] is not None:
            _locale.getencoding = lambda: fs.locale
        os.stat, os.lstat = fs.sim_stat, fs.sim_lstat
        os.scandir, os.listdir = fs.sim_scandir, fs.sim_listdir
        os.mkdir, os.getcwd = fs.sim_mkdir, fs.sim_getcwd
        os.open, os.close, os.read, os.write = fs.sim_os_open, fs.sim_close, fs.sim_read, fs.sim_write
        os.fstat, os.fsync, os.ftruncate, os.lseek = fs.sim_fstat, fs.sim_fsync, fs.sim_ftruncate, fs.sim_lseek
        os.rename, os.replace, os.remove, os.unlink, os.rmdir = fs.sim_rename, fs.sim_replace, fs.sim_unlink, fs.sim_unlink, fs.sim_rmdir
        os.access, os.utime, os.chmod = fs.sim_access, fs.sim_utime, fs.sim_chmod
        os.readlink = fs.sim_readlink
        return fs

    def __exit__(self, *exc):
        builtins.open = _real['open']
        io.open = _real['open']
        io.FileIO = _REAL_FILEIO
        io.TextIOWrapper = _REAL_TEXTIOWRAPPER
        if getattr(self, '_loc', None):
            import locale as _locale
            _locale.getpreferredencoding = self._loc[0]
            if self._loc[1] is not None:
                _locale.getencoding = self._loc[1]
        os.stat, os.lstat = _real['stat'], _real['lstat']
        os.scandir, os.listdir = _real['scandir'], _real['listdir']
        os.mkdir, os.getcwd = _real['mkdir'], _real['getcwd']
        os.open, os.close, os.read, os.write = _real['os_open'], _real['close'], _real['read'], _real['write']
        os.fstat, os.fsync, os.ftruncate, os.lseek = _real['fstat'], _real['fsync'], _real['ftruncate'], _real['lseek']
        os.rename, os.replace, os.remove, os.unlink, os.rmdir = _real['rename'], _real['replace'], _real['remove'], _real['unlink'], _real['rmdir']
        os.access, os.utime, os.chmod = _real['access'], _real['utime'], _real['chmod']
        os.readlink = _real['readlink']
        self.fs._mounted = False
        return False


class _DirEntry:
    def __init__(self, fs, name, path, abs_path):
        self._fs, self.name, self.path, self._abs = fs, name, path, abs_path

    def _node(self):
        n = self._fs.nodes.get(self._abs)
        if n is None:
            raise FileNotFoundError(errno.ENOENT, os.strerror(errno.ENOENT), self.path)
        return n

    def _target(self, follow):
        try:
            return self._fs.nodes.get(self._fs.resolve(self._abs, follow=follow) or self._abs)
        except OSError:
            return None

    def is_dir(self, *, follow_symlinks=True):
        n = self._target(follow_symlinks)
        return n is not None and n.kind == 'dir'

    def is_file(self, *, follow_symlinks=True):
        n = self._target(follow_symlinks)
        return n is not None and n.kind == 'file'

    def is_symlink(self):
        n = self._fs.nodes.get(self._abs)
        return n is not None and n.kind == 'link'

    def is_junction(self):
        return False

    def inode(self):
        return self._node().ino

    def stat(self, *, follow_symlinks=True):
        n = self._target(follow_symlinks)
        if n is None:
            raise FileNotFoundError(errno.ENOENT, os.strerror(errno.ENOENT), self.path)
        return SimFS._stat_result(n)

    def __fspath__(self):
        return self.path

    def __repr__(self):
        return f'<SimDirEntry {self.name!r}>'


class _ScandirIter:
    def __init__(self, entries):
        self._it = iter(entries)

    def __iter__(self):
        return self

    def __next__(self):
        return next(self._it)

    def __enter__(self):
        return self

    def __exit__(self, *a):
        self.close()
        return False

    def close(self):
        self._it = iter(())


class _NoCloseRaw(io.RawIOBase):
    """closefd=False view of a FakeRaw."""

    def __init__(self, raw):
        super().__init__()
        self._raw = raw
        self.name = raw.name
        self.mode = raw.mode

    def readable(self):
        return self._raw.readable()

    def writable(self):
        return self._raw.writable()

    def seekable(self):
        return True

    def readinto(self, b):
        return self._raw.readinto(b)

    def write(self, b):
        return self._raw.write(b)

    def seek(self, pos, whence=0):
        return self._raw.seek(pos, whence)

    def tell(self):
        return self._raw.tell()

    def truncate(self, size=None):
        return self._raw.truncate(size)


class FakeRaw(io.RawIOBase):
    """The raw layer: an in-memory file with short counts and injected errno faults."""

    def __init__(self, fs: SimFS, path, *, reading, writing, create, excl, trunc, append, mode):
        super().__init__()
        self._fs, self._path = fs, path
        self._reading, self._writing, self._append = reading, writing, append
        self.name = path
        self.mode = mode
        # --- open-time faults and errors
        f = fs._fault(('open_error',), path)
        if f is not None and (f.mode is None or (f.mode == 'r') == (reading and not writing)):
            f.fired += 1
            if not f.sticky:
                f.spent = True
            eno = getattr(errno, f.errno_name)
            fs.bump('fault_open_' + f.errno_name)
            fs._emit('open', [path, mode], f.errno_name)
            raise OSError(eno, os.strerror(eno), path)
        fs._actor('open', path)
        node = fs.nodes.get(path)
        if node is not None and excl and create:
            fs._emit('open', [path, mode], 'EEXIST')
            raise FileExistsError(errno.EEXIST, os.strerror(errno.EEXIST), path)
        if node is not None and node.kind == 'dir':
            fs._emit('open', [path, mode], 'EISDIR')
            raise IsADirectoryError(errno.EISDIR, os.strerror(errno.EISDIR), path)
        if node is None:
            if not create:
                fs._emit('open', [path, mode], 'ENOENT')
                fs._parent_check(path)
                raise FileNotFoundError(errno.ENOENT, os.strerror(errno.ENOENT), path)
            fs._parent_check(path)
            fs._ino += 1
            node = fs.nodes[path] = _Node('file', fs._ino)
        elif excl:
            raise FileExistsError(errno.EEXIST, os.strerror(errno.EEXIST), path)
        elif trunc:
            if len(node.data):
                fs.bump('target_preexisting_truncated')
            node.data = bytearray()
            fs.touch(node)
        self._node = node
        self._pos = len(node.data) if append else 0
        # chunking policy of this open file
        ch = fs.chunking
        if ch == 'mixed':
            ch = fs.rng.choice(['whole', 'tiny', 'small', 'small'])
        self._chunk = ch
        fs._emit('open', [path, mode], 'ok:' + ch)

    # -- capabilities
    def readable(self):
        return self._reading

    def writable(self):
        return self._writing

    def seekable(self):
        return True

    def fileno(self):
        # a simulated descriptor: os.fsync / os.fstat / os.ftruncate / os.lseek on it stay inside the simulator
        fd = getattr(self, '_fd', None)
        if fd is None:
            fd = self._fd = self._fs._next_fd
            self._fs._next_fd += 1
            self._fs._fds[fd] = self
        return fd

    def isatty(self):
        return False

    def _n(self, want):
        if want <= 1 or self._chunk == 'whole':
            return want
        hi = 3 if self._chunk == 'tiny' else 64
        n = self._fs.rng.randint(1, min(want, hi))
        return n

    def readinto(self, b):
        if self.closed:
            raise ValueError('I/O operation on closed file')
        if not self._reading:
            raise io.UnsupportedOperation('not readable')
        fs = self._fs
        mv = memoryview(b).cast('B')
        avail = len(self._node.data) - self._pos
        if avail <= 0 or len(mv) == 0:
            return 0
        want = min(len(mv), avail)
        n = self._n(want)
        f = fs._fault(('eintr_read',), self._path)
        if f is not None:
            # PEP 475: a real raw file retries an interrupted system call itself and never shows EINTR to Python code;
            # what the layers above can observe of a signal arriving mid-transfer is a partial (here: one byte) read
            f.fired += 1
            f.spent = True
            fs.bump('fault_eintr_read')
            fs._emit('read', self._path, 'EINTR-retried')
            n = 1
        f = fs._fault(('eio_read',), self._path, self._pos, self._pos + n)
        if f is not None:
            if 'byte' in f.at and not (f.sticky and f.fired) and f.at['byte'] > self._pos:
                n = f.at['byte'] - self._pos          # bytes before the bad sector are still delivered
            else:
                f.fired += 1
                if not f.sticky:
                    f.spent = True
                fs.bump('fault_eio_read')
                fs._emit('read', self._path, 'EIO')
                raise OSError(errno.EIO, os.strerror(errno.EIO), self._path)
        chunk = bytes(self._node.data[self._pos:self._pos + n])
        mv[:n] = chunk
        if n < want:
            fs.bump('short_read')
            # did this boundary fall inside a multi-byte character or between CR and LF?
            nxt = self._node.data[self._pos + n] if self._pos + n < len(self._node.data) else None
            if nxt is not None and (nxt & 0xC0) == 0x80:
                fs.bump('chunk_split_multibyte')
            if chunk.endswith(b'\r') and nxt == 0x0A:
                fs.bump('chunk_split_crlf')
        self._pos += n
        fs.seam_events += 1
        return n

    def write(self, b):
        if self.closed:
            raise ValueError('I/O operation on closed file')
        if not self._writing:
            raise io.UnsupportedOperation('not writable')
        fs = self._fs
        mv = memoryview(b).cast('B')
        if len(mv) == 0:
            return 0
        if self._append:
            self._pos = len(self._node.data)
        n = self._n(len(mv))
        f = fs._fault(('eintr_write',), self._path)
        if f is not None:
            f.fired += 1
            f.spent = True
            fs.bump('fault_eintr_write')
            fs._emit('write', self._path, 'EINTR-retried')
            n = 1             # partial write: the interrupted call had transferred one byte (see readinto)
        f = fs._fault(('enospc_write', 'eio_write'), self._path, self._pos, self._pos + n)
        if f is not None:
            if not (f.sticky and f.fired) and f.at.get('byte', -1) > self._pos:
                n = f.at['byte'] - self._pos          # bytes before the offset are durable, later ones are not
            else:
                f.fired += 1
                if not f.sticky:
                    f.spent = True
                name = 'ENOSPC' if f.kind == 'enospc_write' else 'EIO'
                fs.bump('fault_' + name.lower() + '_write')
                fs._emit('write', self._path, name)
                eno = getattr(errno, name)
                raise OSError(eno, os.strerror(eno), self._path)
        data = self._node.data
        if self._pos > len(data):
            data.extend(b'\0' * (self._pos - len(data)))
        data[self._pos:self._pos + n] = mv[:n].tobytes()
        self._pos += n
        fs.touch(self._node)
        if n < len(mv):
            fs.bump('short_write')
        fs.seam_events += 1
        return n

    def seek(self, pos, whence=0):
        if whence == 0:
            self._pos = pos
        elif whence == 1:
            self._pos += pos
        elif whence == 2:
            self._pos = len(self._node.data) + pos
        if self._pos < 0:
            raise OSError(errno.EINVAL, 'negative seek position')
        return self._pos

    def tell(self):
        return self._pos

    def truncate(self, size=None):
        if size is None:
            size = self._pos
        del self._node.data[size:]
        return size

    def close(self):
        if not self.closed:
            self._fs._emit('close', self._path, len(self._node.data) if hasattr(self, '_node') else None)
            if getattr(self, '_fd', None) is not None:
                self._fs._fds.pop(self._fd, None)
        super().close()
