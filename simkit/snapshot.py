"""Deep structural snapshots of kernpy objects: normalised, free of object identity and absolute node ids.

``token_tuple``   structural value of a token (class, public attributes, sub-tokens in stored order)
``doc_snapshot``  every node of a Document (position, parent, children order, header / spine-operator /
                  signature links, token) + measure index + header stage + page bounding boxes
``constants_snapshot``  the process-global mutable constants of kernpy (seam S3)

Attributes whose name starts with '_' are ignored (a private memo is not an API-visible change; a wrong
result caused by one is caught by the result oracles instead).
"""
from __future__ import annotations

import enum


def _val(v, depth=0):
    if depth > 12:
        return '<deep>'
    if v is None or isinstance(v, (bool, int, float, str)):
        return v
    if isinstance(v, enum.Enum):
        return f'{type(v).__name__}.{v.name}'
    if isinstance(v, (list, tuple)):
        return [_val(x, depth + 1) for x in v]
    if isinstance(v, (set, frozenset)):
        return ['<set>'] + sorted((_val(x, depth + 1) for x in v), key=repr)
    if isinstance(v, dict):
        return {repr(_val(k, depth + 1)): _val(x, depth + 1) for k, x in v.items()}
    if hasattr(v, '__dict__') or hasattr(type(v), '__slots__'):
        return obj_tuple(v, depth + 1)
    return f'<{type(v).__name__}>'


_ABSENT = object()


def public_attrs(o):
    """(name, value) of every public data attribute of o, wherever it is stored: instance dict, __slots__, or a property of
    its class. How a class stores its state is an implementation detail; what can be read through obj.<name> is the API."""
    names = []
    d = getattr(o, '__dict__', None)
    if isinstance(d, dict):
        names.extend(d)
    for klass in type(o).__mro__:
        slots = klass.__dict__.get('__slots__', ())
        if isinstance(slots, str):
            slots = (slots,)
        names.extend(slots or ())
        for n, v in klass.__dict__.items():
            if isinstance(v, property):
                names.append(n)
    out, seen = [], set()
    for n in names:
        if n in seen or n.startswith('_'):
            continue
        seen.add(n)
        try:
            v = getattr(o, n, _ABSENT)
        except Exception as e:       # a property that raises: the exception class is its observable value
            v = f'<raises {type(e).__name__}>'
        if v is not _ABSENT:
            out.append((n, v))
    return out


def obj_tuple(o, depth=0):
    d = {'__class__': type(o).__name__}
    for k, v in public_attrs(o):
        d[k] = _val(v, depth)
    return d


def token_tuple(tok):
    if tok is None:
        return None
    return obj_tuple(tok)


def token_core(tok):
    """Token value without the parser's error message (ANTLR messages carry object addresses)."""
    t = token_tuple(tok)
    if isinstance(t, dict) and t.get('__class__') == 'ErrorToken':
        t = dict(t)
        t.pop('error', None)
    return t


def _positions(doc):
    pos = {}
    for si, stage in enumerate(doc.tree.stages):
        for ni, node in enumerate(stage):
            pos.setdefault(id(node), (si, ni))
    return pos


def doc_snapshot(doc, with_errors_text=False):
    tree = doc.tree
    pos = _positions(doc)
    base_id = tree.root.id

    def ref(n):
        if n is None:
            return None
        p = pos.get(id(n))
        return list(p) if p is not None else ['?', n.id - base_id]

    stages = []
    for stage in tree.stages:
        row = []
        for node in stage:
            sig = node.last_signature_nodes.nodes if node.last_signature_nodes is not None else None
            extra = {k: _val(v) for k, v in public_attrs(node)
                     if k not in ('id', 'token', 'parent', 'children', 'stage', 'header_node', 'last_signature_nodes', 'last_spine_operator_node')}
            row.append({
                'rel_id': node.id - base_id,
                'stage': node.stage,
                'parent': ref(node.parent),
                'children': [ref(c) for c in node.children],
                'header': ref(node.header_node),
                'last_op': ref(node.last_spine_operator_node),
                'sig': {k: ref(v) for k, v in sig.items()} if sig is not None else None,
                'token': token_tuple(node.token) if with_errors_text else token_core(node.token),
                **({'extra': extra} if extra else {}),
            })
        stages.append(row)
    # nodes reachable from the root but missing from the stage index (or vice versa) change the count
    reach = 0
    stack = [tree.root]
    seen = set()
    while stack:
        n = stack.pop()
        if id(n) in seen:
            continue
        seen.add(id(n))
        reach += 1
        stack.extend(n.children)
    doc_extra = {k: _val(v) for k, v in public_attrs(doc)
                 if k not in ('tree', 'measure_start_tree_stages', 'page_bounding_boxes', 'header_stage')}
    return {
        'stages': stages,
        'reachable_nodes': reach,
        'indexed_nodes': sum(len(s) for s in tree.stages),
        'root_is_stage0': tree.stages[0][0] is tree.root if tree.stages and tree.stages[0] else False,
        'measure_start_tree_stages': list(doc.measure_start_tree_stages),
        'header_stage': doc.header_stage,
        'page_bounding_boxes': {str(k): _val(v) for k, v in doc.page_bounding_boxes.items()},
        **({'extra': doc_extra} if doc_extra else {}),
    }


def errors_snapshot(errors):
    return [[getattr(e, 'line', None), getattr(e, 'encoding', None), type(e).__name__] for e in errors]


def constants_snapshot():
    """Process-global mutable state of kernpy that a read-only call must not modify (seam S3), minus Node.NextID."""
    import kernpy.core.tokens as T
    import kernpy.core.transposer as TR
    import kernpy.core.pitch_models as PM
    import kernpy.core.exporter as EX
    import kernpy.core.gkern as GK
    snap = {
        'HEADERS': _val(T.HEADERS), 'CORE_HEADERS': _val(T.CORE_HEADERS), 'SPINE_OPERATIONS': _val(T.SPINE_OPERATIONS),
        'BEKERN_CATEGORIES': _val(T.BEKERN_CATEGORIES), 'NON_CORE_CATEGORIES': _val(T.NON_CORE_CATEGORIES),
        'hierarchy': _val(T.TokenCategoryHierarchyMapper.hierarchy),
        'TERMINATOR': T.TERMINATOR, 'EMPTY_TOKEN': T.EMPTY_TOKEN, 'TOKEN_SEPARATOR': T.TOKEN_SEPARATOR,
        'DECORATION_SEPARATOR': T.DECORATION_SEPARATOR,
        'Intervals': _val(TR.Intervals), 'IntervalsByName': _val(TR.IntervalsByName), 'AVAILABLE_INTERVALS': _val(TR.AVAILABLE_INTERVALS),
        'LETTER_TO_SEMITONES': _val(TR.LETTER_TO_SEMITONES),
        'Chromas': _val(PM.Chromas), 'ChromasByValue': _val(PM.ChromasByValue), 'pitches': _val(PM.pitches),
        'exporter.HEADERS': _val(EX.HEADERS), 'exporter.BEKERN_CATEGORIES': _val(EX.BEKERN_CATEGORIES),
        'TokenCategory': [m.name + '=' + str(m.value) for m in T.TokenCategory],
        'Encoding': [m.name + '=' + str(m.value) for m in EX.Encoding],
    }
    # class-level mutable attributes of the public classes (a "tokens = []" class attribute would show up here)
    import kernpy.core.document as D
    import kernpy.core.importer as IM
    for mod in (T, D, EX, IM, GK, PM):
        for name, cls in sorted(vars(mod).items()):
            if isinstance(cls, type) and getattr(cls, '__module__', '').startswith('kernpy'):
                for an, av in sorted(vars(cls).items()):
                    if an.startswith('_') or callable(av) or isinstance(av, (classmethod, staticmethod, property)):
                        continue
                    if an == 'NextID' or isinstance(av, enum.Enum):
                        continue
                    if isinstance(av, (list, dict, set, str, int, float, tuple, frozenset)):
                        snap[f'{cls.__module__}.{cls.__qualname__}.{an}'] = _val(av)
    # every other PUBLIC module-level container of kernpy's own modules, found by discovery rather than by name, so that a shared
    # default that a later version introduces (or one this list forgot) is watched too; objects already listed above are skipped
    import sys
    seen = {id(v) for v in (T.HEADERS, T.CORE_HEADERS, T.SPINE_OPERATIONS, T.BEKERN_CATEGORIES, T.NON_CORE_CATEGORIES, TR.Intervals,
                            TR.IntervalsByName, TR.AVAILABLE_INTERVALS, TR.LETTER_TO_SEMITONES, PM.Chromas, PM.ChromasByValue, PM.pitches)}
    for mname in sorted(m for m in sys.modules if m == 'kernpy' or m.startswith('kernpy.')):
        if '.generated' in mname or 'polish_scores' in mname:
            continue
        mod = sys.modules.get(mname)
        for name, val in sorted(getattr(mod, '__dict__', {}).items()):
            if name.startswith('_') or id(val) in seen:
                continue
            if isinstance(val, (list, dict, set, frozenset, tuple)):
                seen.add(id(val))
                try:
                    snap[f'{mname}.{name}'] = _val(val)
                except Exception:
                    pass
    return snap


def subsumes(old, new, path=''):
    """Is everything recorded in ``old`` still there, unchanged, in ``new``?  Keys/attributes that exist only in ``new`` are
    ignored: an attribute that did not exist when the snapshot was taken (a memo added by a later call) is not an
    API-visible change of what was there - a wrong result caused by it is the result oracles' business.
    Returns None if subsumed, else a short description of the first difference."""
    if isinstance(old, dict) and isinstance(new, dict):
        for k, v in old.items():
            if k not in new:
                return f'{path}.{k}: removed'
            d = subsumes(v, new[k], f'{path}.{k}')
            if d:
                return d
        return None
    if isinstance(old, list) and isinstance(new, list):
        if len(old) != len(new):
            return f'{path}: length {len(old)} -> {len(new)}'
        for i, (a, b) in enumerate(zip(old, new)):
            d = subsumes(a, b, f'{path}[{i}]')
            if d:
                return d
        return None
    if old != new:
        return f'{path}: {str(old)[:80]!r} -> {str(new)[:80]!r}'
    return None
