"""simkit - a small deterministic-simulation kit for kernpy (standard library only).

Modules
  seeds      one integer decides everything: PRNG derivation per (VERIF_SEED, property, run, stream)
  eventlog   global event sequence, normalised outcome digests
  runner     batch driver (fork pool, index-ordered merge), evidence, known findings, replay, exit codes
  ddmin      delta debugging helpers used by every check's minimiser
  docgen     abstract Humdrum document generator + renderer (the workload)
  snapshot   deep structural snapshots of kernpy documents/tokens (normalised, id-free)
  simfs      simulated operating system: in-memory tree, fake raw files under the real io stack, faults
  interrupt  crash/cancellation injector at the k-th kernpy line event (sys.monitoring)
"""
