"""Delta debugging helpers (Zeller's ddmin and simple greedy passes).

``test(candidate) -> bool`` must return True iff the *same* violation signature still fires.
All functions are deterministic and bounded by ``budget`` test evaluations.
"""
from __future__ import annotations


class Budget:
    def __init__(self, n: int):
        self.left = n

    def take(self) -> bool:
        if self.left <= 0:
            return False
        self.left -= 1
        return True


def ddmin_list(items: list, test, budget: Budget, min_len: int = 0) -> list:
    """Minimise a list while test(list) stays True. Returns a 1-minimal sublist (within budget)."""
    items = list(items)
    n = 2
    while len(items) > max(min_len, 1) and n <= len(items) * 2:
        chunk = max(1, len(items) // n)
        subsets = [items[i:i + chunk] for i in range(0, len(items), chunk)]
        reduced = False
        # try complements (remove one chunk)
        for i in range(len(subsets)):
            comp = [x for j, s in enumerate(subsets) if j != i for x in s]
            if len(comp) < min_len:
                continue
            if not budget.take():
                return items
            if test(comp):
                items = comp
                n = max(n - 1, 2)
                reduced = True
                break
        if not reduced:
            if chunk == 1:
                break
            n = min(n * 2, len(items))
    # final single-removal pass for lists that ended with length > min_len
    i = 0
    while i < len(items) and len(items) > min_len:
        cand = items[:i] + items[i + 1:]
        if not budget.take():
            return items
        if test(cand):
            items = cand
        else:
            i += 1
    return items


def greedy_replace(items: list, alternatives, test, budget: Budget) -> list:
    """For each position try simpler alternatives (alternatives(i, item) -> iterable of candidates)."""
    items = list(items)
    for i in range(len(items)):
        for alt in alternatives(i, items[i]):
            if alt == items[i]:
                continue
            cand = items[:i] + [alt] + items[i + 1:]
            if not budget.take():
                return items
            if test(cand):
                items = cand
                break
    return items
