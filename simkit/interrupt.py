"""Interruption injector: raise at the k-th kernpy line event (cancellation / failing allocation).

``sys.monitoring`` (PEP 669, tool id 4) delivers LINE events; code objects outside the tree under
test (and the generated ANTLR parser) answer DISABLE so they cost one callback per location.
Raising from the callback propagates at exactly that line, as a KeyboardInterrupt or a failed
allocation would.  Independent of sys.settrace, so it coexists with coverage.

The crash point k is an index into the line events *of the tree under test* for that operation;
a replay file is therefore exact for a given tree, which is what replay is for.
"""
from __future__ import annotations

import os
import sys

TOOL_ID = 4
_mon = sys.monitoring


class SimInterrupt(BaseException):
    """Cancellation at an arbitrary instant. BaseException: not caught by ``except Exception``."""


PAYLOADS = {
    'SimInterrupt': lambda: SimInterrupt('simulated cancellation'),
    'MemoryError': lambda: MemoryError('simulated failing allocation'),
}


class Injector:
    def __init__(self, src_root: str):
        self.prefix = os.path.join(os.path.abspath(src_root), 'kernpy') + os.sep
        self._match_cache = {}
        self.count = 0
        self.k = 0
        self.payload = None
        self.callback = None
        self.delivered = False
        self._claimed = False

    def _matches(self, code) -> bool:
        m = self._match_cache.get(code)
        if m is None:
            fn = code.co_filename
            m = fn.startswith(self.prefix) and (os.sep + 'generated' + os.sep) not in fn
            self._match_cache[code] = m
        return m

    def _on_line(self, code, line):
        if not self._matches(code):
            return _mon.DISABLE
        self.count += 1
        if self.k and self.count == self.k and not self.delivered:
            self.delivered = True
            if self.callback is not None:
                # re-entrancy: an asynchronous callback (signal handler, finalizer, logging hook) runs library code right here
                cb, self.callback = self.callback, None
                cb()
                return None
            raise PAYLOADS[self.payload]()
        return None

    def _arm(self):
        if not self._claimed:
            if _mon.get_tool(TOOL_ID) is None:
                _mon.use_tool_id(TOOL_ID, 'simkit-interrupt')
            self._claimed = True
        _mon.register_callback(TOOL_ID, _mon.events.LINE, self._on_line)
        _mon.restart_events()
        _mon.set_events(TOOL_ID, _mon.events.LINE)

    def _disarm(self):
        _mon.set_events(TOOL_ID, 0)
        _mon.register_callback(TOOL_ID, _mon.events.LINE, None)

    def count_events(self, fn) -> int:
        """Dry run: number of kernpy line events fn() produces (exceptions from fn are swallowed)."""
        self.count, self.k, self.delivered = 0, 0, False
        self._arm()
        try:
            try:
                fn()
            except Exception:
                pass
        finally:
            self._disarm()
        return self.count

    def run_with_callback(self, fn, k: int, callback):
        """Run fn() and, at its k-th kernpy line event, call ``callback()`` synchronously (it may itself run kernpy code), then
        let fn continue. Returns (delivered, outcome) like run()."""
        self.count, self.k, self.payload, self.delivered, self.callback = 0, k, None, False, callback
        self._arm()
        try:
            try:
                out = ('ok', fn())
            except BaseException as e:  # noqa
                if isinstance(e, (KeyboardInterrupt, SystemExit)):
                    raise
                out = ('exc', e)
        finally:
            self._disarm()
            self.callback = None
        return self.delivered, out

    def run(self, fn, k: int, payload: str):
        """Run fn() and raise ``payload`` at its k-th kernpy line event.

        Returns (delivered, outcome) where outcome is ('ok', value) or ('exc', exception).
        """
        self.count, self.k, self.payload, self.delivered, self.callback = 0, k, payload, False, None
        self._arm()
        try:
            try:
                out = ('ok', fn())
            except BaseException as e:  # noqa - the payload may be a BaseException
                if isinstance(e, (KeyboardInterrupt, SystemExit)):
                    raise
                out = ('exc', e)
        finally:
            self._disarm()
        return self.delivered, out


_INJ = {}


def injector(src_root: str) -> Injector:
    inj = _INJ.get(src_root)
    if inj is None:
        inj = _INJ[src_root] = Injector(src_root)
    return inj
