"""One integer decides everything.

Run *i* of property *P* under VERIF_SEED *s* draws every choice from
``Random(sha256(f"{s}/{P}/{i}/{stream}"))``.  Independent named sub-streams mean that dropping an
operation while shrinking never shifts the faults, and that a run's content depends on nothing but
(s, P, i).
"""
from __future__ import annotations

import hashlib
import os
import random


def verif_seed() -> int:
    v = os.environ.get('VERIF_SEED', '0').strip()
    try:
        return int(v)
    except ValueError:
        # any string is accepted, mapped to an integer deterministically
        return int.from_bytes(hashlib.sha256(v.encode()).digest()[:8], 'big')


def derive(*parts) -> int:
    h = hashlib.sha256('/'.join(str(p) for p in parts).encode()).digest()
    return int.from_bytes(h[:16], 'big')


def rng_for(seed: int, prop: str, run: int, stream: str) -> random.Random:
    return random.Random(derive(seed, prop, run, stream))


class Streams:
    """Lazily created named PRNG sub-streams of one run."""

    def __init__(self, seed: int, prop: str, run: int):
        self.seed, self.prop, self.run = seed, prop, run
        self._s = {}

    def __getitem__(self, name: str) -> random.Random:
        r = self._s.get(name)
        if r is None:
            r = self._s[name] = rng_for(self.seed, self.prop, self.run, name)
        return r


def weighted(rng: random.Random, table):
    """table: sequence of (item, weight). Deterministic weighted choice."""
    total = sum(w for _, w in table)
    x = rng.random() * total
    acc = 0.0
    for item, w in table:
        acc += w
        if x < acc:
            return item
    return table[-1][0]
