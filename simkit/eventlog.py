"""Event log of one simulated run.

Every operation the simulator issues and every seam event it serves gets a global sequence number.
The SHA-256 over the records is the run's *digest*; the determinism self-test compares digests of
the same (seed, property, run) across processes, worker counts and PYTHONHASHSEED values.

Logging never draws from a PRNG and never reads a clock.
"""
from __future__ import annotations

import hashlib
import json
import re

_HEX = re.compile(r'0x[0-9a-fA-F]+')


def norm_exc(e: BaseException) -> str:
    """Exception normalised for comparison: class name only (messages may carry ids/addresses)."""
    return type(e).__name__


def norm_msg(s: str) -> str:
    return _HEX.sub('0x?', s)


def canon(obj):
    """Canonical JSON-able form: sets sorted, tuples -> lists, enums -> names, bytes -> hex."""
    import enum
    if isinstance(obj, enum.Enum):
        return f'{type(obj).__name__}.{obj.name}'
    if isinstance(obj, (str, int, float, bool)) or obj is None:
        return obj
    if isinstance(obj, bytes):
        return {'__bytes__': obj.hex()}
    if isinstance(obj, dict):
        return {str(canon(k)) if not isinstance(k, str) else k: canon(v) for k, v in obj.items()}
    if isinstance(obj, (set, frozenset)):
        return {'__set__': sorted((canon(x) for x in obj), key=lambda x: json.dumps(x, sort_keys=True, default=str))}
    if isinstance(obj, (list, tuple)):
        return [canon(x) for x in obj]
    return {'__repr__': norm_msg(repr(obj))}


def digest_of(obj) -> str:
    return hashlib.sha256(json.dumps(canon(obj), sort_keys=True, ensure_ascii=True, default=str).encode()).hexdigest()


class EventLog:
    __slots__ = ('seq', '_h', 'keep', 'records', 'counts')

    def __init__(self, keep: bool = False):
        self.seq = 0
        self._h = hashlib.sha256()
        self.keep = keep
        self.records = []
        self.counts = {}

    def emit(self, actor: str, kind: str, args=None, outcome=None) -> int:
        """Record one event; returns its sequence number (logical time)."""
        self.seq += 1
        rec = (self.seq, actor, kind, digest_of(args) if args is not None else '', digest_of(outcome) if outcome is not None else '')
        self._h.update(repr(rec).encode())
        self.counts[kind] = self.counts.get(kind, 0) + 1
        if self.keep:
            self.records.append({'seq': self.seq, 'actor': actor, 'kind': kind, 'args': canon(args), 'outcome': canon(outcome)})
        return self.seq

    def digest(self) -> str:
        return self._h.hexdigest()
