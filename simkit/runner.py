"""Batch driver shared by all checks.

A *check* is an object with

    PROPERTY            'C12'
    TIERS               {'quick': {'runs': N, 'wall_cap_s': S}, 'thorough': {...}}
    RULE                str  - how cases are generated and what makes one non-trivial/distinct
    COMPONENTS          {'real': [...], 'stub': [...]}
    ASSUMPTIONS         [str]
    MATCHERS            {name: fn(violation_dict, params) -> bool}     known-finding predicates
    gen_plan(seed, index, tier) -> dict      pure function of its arguments (JSON-able *literal* plan)
    execute(plan) -> dict                    deterministic function of (plan, tree under test):
          {'digest', 'events', 'faults': {kind: n}, 'probes': {name: n}, 'shape': str,
           'nontrivial': bool, 'config': 'fault_free'|'fault_injecting', 'violations': [v...],
           'extra': {...}}                   v = {'class','signature','seq','expected','actual','detail'}
    shrink(plan, still_fails, budget) -> plan    minimiser (still_fails(plan) -> bool)
    summarize(plan) -> json-able             short literal description used as evidence sample

Exit codes: 0 held on everything explored (known findings are printed, not counted);
1 a violation not listed in known_findings.json (``VIOLATION property=<id> replay=<path>``);
2 harness trouble (harness exception, worker death/timeout, vacuous batch, replay did not reproduce).
"""
from __future__ import annotations

import argparse
import collections
import concurrent.futures as cf
import faulthandler
import json
import multiprocessing
import os
import sys
import time
import traceback

from . import seeds
from .eventlog import digest_of

VERIF_DIR = os.path.dirname(os.path.dirname(os.path.abspath(__file__)))
KNOWN_FILE = os.path.join(VERIF_DIR, 'known_findings.json')
EVIDENCE_DIR = os.path.join(VERIF_DIR, 'evidence')
REPLAY_DIR = os.environ.get('VERIF_REPLAY_DIR') or os.path.join(VERIF_DIR, 'out', 'replay')


class HarnessError(Exception):
    """Raised by harness code when the harness itself (not kernpy) is in an impossible state."""


# --------------------------------------------------------------------------------------------
# bootstrap: interpreter environment and kernpy location
# --------------------------------------------------------------------------------------------

def kernpy_src() -> str:
    return os.path.abspath(os.environ.get('KERNPY_SRC', '/repo'))


def _py_flags(optimize=None):
    o = sys.flags.optimize if optimize is None else optimize
    return ['-' + 'O' * o] if o else []


def bootstrap(hashseed: str | None = None, optimize: int | None = None):
    """Pin PYTHONHASHSEED and the interpreter's optimisation level (re-exec once) and make ``import kernpy`` resolve under KERNPY_SRC."""
    want = hashseed if hashseed is not None else str(seeds.verif_seed() % 4294967296)
    want_opt = sys.flags.optimize if optimize is None else optimize
    if (os.environ.get('PYTHONHASHSEED') != want and os.environ.get('SIMKIT_NO_REEXEC') != '1') or want_opt != sys.flags.optimize:
        env = dict(os.environ)
        env['PYTHONHASHSEED'] = want
        env['SIMKIT_NO_REEXEC'] = '1'
        env['PYTHONDONTWRITEBYTECODE'] = '1'
        sys.stdout.flush()
        sys.stderr.flush()
        os.execve(sys.executable, [sys.executable] + _py_flags(want_opt) + sys.argv, env)
    src = kernpy_src()
    if sys.path[0] != src:
        sys.path.insert(0, src)
    import warnings
    warnings.simplefilter('ignore', DeprecationWarning)
    import kernpy  # noqa
    import kernpy.__main__  # noqa - module-level lines must not be counted as line events of a later operation
    loc = os.path.abspath(kernpy.__file__)
    if not loc.startswith(src + os.sep):
        raise HarnessError(f'kernpy resolved to {loc}, expected under {src}')
    prewarm(kernpy)
    return kernpy


def prewarm(kp):
    """Warm the ANTLR prediction caches in the parent, once, with a fixed corpus, so that every chunk child (a fresh fork of
    this image) starts warm. Deterministic; identical for batch runs and for replay. Failures are ignored: on a broken tree
    the checks themselves will report."""
    import random
    from . import docgen
    try:
        for i in range(100):
            rng = random.Random(900000 + i)
            d = docgen.gen_doc(rng, docgen.swarm_features(rng, combining_sigs=(i % 5 == 0)))
            try:
                doc, _ = kp.loads(d.render())
                kp.dumps(doc)
                kp.dumps(doc, encoding=kp.Encoding.eKern)
            except Exception:
                pass
        imp = kp.KernSpineImporter()
        for t in ('4c€', '4czz', '=1zz', '*clef', '4c 4', '#4c', '*xywh-1:1,2', 'q', '4c@', '16%', '*M4/', '*k[f#', '*>[A'):
            try:
                imp.import_token(t)
            except Exception:
                pass
    except Exception:
        pass


# --------------------------------------------------------------------------------------------
# known findings
# --------------------------------------------------------------------------------------------

def load_known(prop: str):
    try:
        with open(KNOWN_FILE, encoding='utf-8') as f:
            data = json.load(f)
    except FileNotFoundError:
        return []
    return [e for e in data.get('findings', []) if e.get('property') == prop and e.get('status') == 'known']


def classify(check, violation: dict, known: list):
    """Return the id of the known finding that lists this violation, or None."""
    for e in known:
        fn = check.MATCHERS.get(e.get('matcher'))
        if fn is None:
            continue
        try:
            if fn(violation, e.get('params') or {}):
                return e['id']
        except Exception:  # a matcher must never turn a violation into a crash
            continue
    return None


# --------------------------------------------------------------------------------------------
# worker side
# --------------------------------------------------------------------------------------------

_CHECK = None
_KNOWN = None
_CHUNK_TIMEOUT = 600


def _run_one(check, known, seed, index, tier):
    plan = check.gen_plan(seed, index, tier)
    res = check.execute(plan)
    viol = []
    unlisted = False
    for v in res.get('violations', []):
        kid = classify(check, v, known)
        vv = dict(v)
        vv['known'] = kid
        vv['run'] = index
        viol.append(vv)
        if kid is None:
            unlisted = True
    return plan, res, viol, unlisted


def _work(job):
    """Run one chunk in a FRESH FORK of the pristine (post-bootstrap) process image.

    Process-global state of the tree under test (caches, class attributes, counters) can then leak between the runs
    of one chunk only - in index order, independent of worker count - so a violation that depends on it is replayable
    from the literal plans of the preceding runs of its chunk (see _minimise_and_write / replay)."""
    import pickle
    sys.stdout.flush()
    sys.stderr.flush()
    r, w = os.pipe()
    pid = os.fork()
    if pid == 0:
        os.close(r)
        try:
            try:
                data = pickle.dumps(_run_chunk(job))
            except BaseException as e:  # noqa
                data = pickle.dumps({'fatal': ''.join(traceback.format_exception(type(e), e, e.__traceback__))[-4000:], 'first': job[2][0]})
            with os.fdopen(w, 'wb') as f:
                f.write(data)
        finally:
            os._exit(0)
    os.close(w)
    with os.fdopen(r, 'rb') as f:
        data = f.read()
    os.waitpid(pid, 0)
    if not data:
        return {'fatal': f'chunk child for runs {job[2][0]}.. died without a result (killed or timed out)', 'first': job[2][0]}
    return pickle.loads(data)


def _run_chunk(job):
    """Execute one chunk of run indices and return its aggregate (memory stays flat for million-run batches)."""
    import hashlib
    seed, tier, indices = job
    faulthandler.dump_traceback_later(_CHUNK_TIMEOUT, exit=True)
    agg = {'first': indices[0], 'n': 0, 'events': 0, 'faults': collections.Counter(), 'probes': collections.Counter(),
           'configs': collections.Counter(), 'sums': collections.Counter(), 'shapes': set(), 'samples': [],
           'known_hits': collections.Counter(), 'unlisted': [], 'unlisted_n': 0, 'unlisted_sigs': collections.Counter(),
           'harness_errors': [], 'extras': []}
    h = hashlib.sha256()
    h2 = hashlib.sha256()
    try:
        for i in indices:
            try:
                plan, res, viol, unlisted = _run_one(_CHECK, _KNOWN, seed, i, tier)
            except BaseException as e:  # harness trouble: classified apart from violations
                agg['harness_errors'].append(f'run {i}: ' + ''.join(traceback.format_exception(type(e), e, e.__traceback__))[-4000:])
                if isinstance(e, (KeyboardInterrupt, SystemExit)):
                    raise
                continue
            agg['n'] += 1
            h.update(res['digest'].encode())
            # crash points are indices into the tree's line events, which legitimately depend on set iteration order:
            # for the cross-PYTHONHASHSEED comparison such runs contribute their plan, not their event log
            h2.update((digest_of(plan) if res.get('hash_sensitive') else res['digest']).encode())
            agg['events'] += res.get('events', 0)
            agg['faults'].update(res.get('faults', {}))
            agg['probes'].update(res.get('probes', {}))
            agg['configs'][res.get('config', 'fault_free')] += 1
            extra = res.get('extra') or {}
            agg['sums'].update(extra.get('sum') or {})
            if res.get('nontrivial'):
                agg['shapes'].add(int(res.get('shape', '0')[:15] or '0', 16))
            if i < 3:
                agg['samples'].append(_CHECK.summarize(plan))
            agg['extras'].append(extra)
            for v in viol:
                if v['known']:
                    agg['known_hits'][v['known']] += 1
                else:
                    agg['unlisted_n'] += 1
                    agg['unlisted_sigs'][v['signature']] += 1
                    if len(agg['unlisted']) < 4:
                        agg['unlisted'].append((i, v.get('seq', 0), v, plan, indices[0]))
    finally:
        faulthandler.cancel_dump_traceback_later()
    agg['digest'] = h.hexdigest()
    agg['digest_hs'] = h2.hexdigest()
    if hasattr(_CHECK, 'reduce_extra'):
        agg['extras'] = [_CHECK.reduce_extra(agg['extras'])]
    else:
        agg['extras'] = []
    return agg


# --------------------------------------------------------------------------------------------
# batch
# --------------------------------------------------------------------------------------------

def log(*a):
    print(*a, file=sys.stderr, flush=True)


def run_optimised_leg(check, tier, seed):
    """Interpreter-environment leg: a small batch of the same check under ``python -O`` (asserts stripped, __debug__ False).
    Returns (rc, violation_line or None, runs)."""
    import subprocess
    n = check.TIERS[tier].get('opt_leg_runs', 0)
    if not n or sys.flags.optimize:
        return 0, None, 0
    env = dict(os.environ, SIMKIT_NO_REEXEC='1', PYTHONDONTWRITEBYTECODE='1', VERIF_SEED=str(seed))
    r = subprocess.run([sys.executable, '-O', os.path.join(VERIF_DIR, 'check'), check.PROPERTY, '--tier', tier, '--runs', str(n), '--no-evidence', '--leg'],
                       env=env, cwd=VERIF_DIR, capture_output=True, text=True, timeout=1800)
    line = next((l for l in r.stdout.splitlines() if l.startswith('VIOLATION ')), None)
    if r.returncode not in (0, 1):
        log('HARNESS-ERROR in the python -O leg: ' + r.stderr[-600:])
    elif r.returncode == 1:
        log('python -O leg: ' + '\n'.join(l for l in r.stderr.splitlines() if 'violation' in l or 'expected' in l or 'actual' in l)[:900])
    return r.returncode, line, n


def run_batch(check, tier: str, seed: int, runs: int | None = None, start: int = 0, workers: int | None = None,
              wall_cap_s: float | None = None, chunk: int | None = None, write_evidence: bool = True,
              quiet: bool = False, leg: bool = False):
    global _CHECK, _KNOWN
    t0 = time.time()
    cfg = check.TIERS[tier]
    full_tier = runs is None            # only a full tier run (no --runs override) also runs the python -O leg
    runs = runs if runs is not None else cfg['runs']
    wall_cap_s = wall_cap_s if wall_cap_s is not None else cfg.get('wall_cap_s', 3600)
    workers = workers or int(os.environ.get('VERIF_WORKERS', '0')) or min(16, os.cpu_count() or 1)
    chunk = chunk or cfg.get('chunk', 8)
    known = load_known(check.PROPERTY)
    _CHECK, _KNOWN = check, known
    if not quiet:
        log(f'VERIF_SEED={seed} property={check.PROPERTY} tier={tier} runs={runs} start={start} workers={workers} '
            f'hashseed={os.environ.get("PYTHONHASHSEED")} kernpy={kernpy_src()}')

    canaries = run_canaries(check, known) if write_evidence and not leg else {}
    opt_leg = run_optimised_leg(check, tier, seed) if not leg and full_tier else (0, None, 0)
    t_main = time.time()                # the wall cap bounds the main batch; the canaries and the -O leg have their own limits
    jobs = [(seed, tier, list(range(s, min(s + chunk, start + runs)))) for s in range(start, start + runs, chunk)]
    results = []
    harness_errors = []
    truncated = False
    if workers == 1:
        for job in jobs:
            if time.time() - t_main > wall_cap_s:
                truncated = True
                break
            results.append(_work(job))
    else:
        ctx = multiprocessing.get_context('fork')
        with cf.ProcessPoolExecutor(max_workers=workers, mp_context=ctx) as ex:
            pending = collections.deque()
            it = iter(jobs)
            exhausted = False
            try:
                while True:
                    while not exhausted and not truncated and len(pending) < workers * 3:
                        if time.time() - t_main > wall_cap_s:
                            truncated = True
                            break
                        job = next(it, None)
                        if job is None:
                            exhausted = True
                            break
                        pending.append(ex.submit(_work, job))
                    if not pending:
                        break
                    fut = pending.popleft()
                    results.append(fut.result(timeout=_CHUNK_TIMEOUT + 60))
            except (cf.process.BrokenProcessPool, cf.TimeoutError) as e:
                harness_errors.append(f'worker died or timed out: {e!r}')
                for p in pending:
                    p.cancel()
    results.sort(key=lambda r: r['first'])
    for r in results:
        if 'fatal' in r:
            harness_errors.append(f'chunk starting at run {r["first"]}: {r["fatal"]}')
        else:
            harness_errors.extend(r['harness_errors'])
    good = [r for r in results if 'fatal' not in r]
    wall = time.time() - t0
    return _finish(check, tier, seed, start, runs, good, harness_errors, truncated, wall, known, workers, write_evidence, quiet, canaries, opt_leg)


def run_canaries(check, known):
    """Re-execute the committed minimised example of every listed finding (known_examples/<id>.json), each in its own fork.
    A finding is thereby tied to one specific input/history that fails; if upstream repairs it the line says so."""
    out = {}
    for e in known:
        path = os.path.join(VERIF_DIR, 'known_examples', e['id'] + '.json')
        try:
            with open(path, encoding='utf-8') as f:
                ex = json.load(f)
        except FileNotFoundError:
            continue
        fn = check.MATCHERS.get(e.get('matcher'))
        others = [x for x in known if x['id'] != e['id']]
        r = eval_isolated(check, others, [], ex['plan'], ex['signature'])
        ok = r['hit'] is not None and fn is not None and bool(fn(r['hit'], e.get('params') or {}))
        out[e['id']] = 'its committed example still fails' if ok else 'its committed example NO LONGER fails on this tree'
    return out


def _finish(check, tier, seed, start, runs, good, harness_errors, truncated, wall, known, workers, write_evidence, quiet, canaries=None,
            opt_leg=(0, None, 0)):
    canaries = canaries or {}
    prop = check.PROPERTY
    faults = collections.Counter()
    probes = collections.Counter()
    configs = collections.Counter()
    extra_sum = collections.Counter()
    shapes = set()
    digests = []
    digests_hs = []
    events = 0
    samples = []
    known_hits = collections.Counter()
    unlisted = []
    n_runs = 0
    unlisted_n = 0
    unlisted_sigs = collections.Counter()
    extras = []
    for r in good:
        n_runs += r['n']
        faults.update(r['faults'])
        probes.update(r['probes'])
        configs.update(r['configs'])
        extra_sum.update(r['sums'])
        events += r['events']
        digests.append(r['digest'])
        digests_hs.append(r['digest_hs'])
        shapes |= r['shapes']
        samples.extend(r['samples'])
        known_hits.update(r['known_hits'])
        unlisted.extend(r['unlisted'])
        unlisted_n += r['unlisted_n']
        unlisted_sigs.update(r['unlisted_sigs'])
        extras.extend(r['extras'])
    unlisted.sort(key=lambda t: (t[0], t[1]))
    if os.environ.get('VERIF_VERBOSE') == '1':
        for run_i, seq, v, _plan, _cf in unlisted[:40]:
            log(f'  [unlisted] run={run_i} seq={seq} sig={v["signature"]} expected={str(v.get("expected"))[:300]!r} actual={str(v.get("actual"))[:300]!r}')
    batch_digest = digest_of(digests)

    rc = 0
    out_lines = []
    known_by_id = {e['id']: e for e in known}
    # a listed finding is announced on every run, hit or not, so the line does not depend on the sample
    for e in known:
        kid = e['id']
        note = f'hit {known_hits[kid]}x in this batch' if kid in known_hits else 'listed; not hit in this batch'
        if kid in canaries:
            note += '; ' + canaries[kid]
        out_lines.append(f'KNOWN-FINDING: property={prop} {kid}: {e["what_fails"]} ({note})')

    replay_path = None
    if unlisted:
        rc = 1
        run_i, seq, v, plan, replay_path = _report_first_reproducible(check, seed, tier, unlisted, known)
        out_lines.append(f'VIOLATION property={prop} replay={replay_path}')
        log(f'violation class={v["class"]} signature={v["signature"]} run={run_i} seq={seq}')
        log(f'  expected: {json.dumps(v.get("expected"), ensure_ascii=False, default=str)[:600]}')
        log(f'  actual:   {json.dumps(v.get("actual"), ensure_ascii=False, default=str)[:600]}')
        log(f'  unlisted violations in batch: {unlisted_n} over signatures {dict(unlisted_sigs.most_common(8))}')

    if opt_leg[0] == 1 and opt_leg[1] and rc == 0:
        rc = 1
        out_lines.append(opt_leg[1])
        replay_path = opt_leg[1].split('replay=', 1)[1]
        _REPLAY_ACCEPTED[replay_path] = True
    elif opt_leg[0] not in (0, 1):
        harness_errors.append('the python -O leg failed')
    distinct = len(shapes)
    zero_probes = [p for p in getattr(check, 'PROBES', []) if probes.get(p, 0) == 0]
    if zero_probes and not quiet:
        log(f'warning: probes stuck at zero: {zero_probes}')
    if harness_errors:
        # harness trouble never yields 0; a violation whose replay file was accepted (reproduced by the real replay command in
        # fresh interpreters) stands on its own and keeps exit code 1 (e.g. a change that also makes some chunks time out)
        if not (rc == 1 and replay_path is not None and _REPLAY_ACCEPTED.get(replay_path)):
            rc = 2
        for h in harness_errors[:5]:
            log('HARNESS-ERROR ' + h)
    elif n_runs == 0 or distinct < 2:
        log(f'HARNESS-ERROR vacuous batch: runs={n_runs} distinct_nontrivial={distinct}')
        rc = 2

    evidence = {
        'property_id': prop,
        'tier': tier,
        'seed': seed,
        'level': 'exploration',
        'coverage': {
            'evaluations': n_runs,
            'distinct_nontrivial': distinct,
            'rule': check.RULE,
            'samples': samples[:3] if samples else [{'note': 'no sample (batch did not start at index 0)'}],
            'run_index_range': [start, start + n_runs],
            'requested_runs': runs,
            'truncated_by_wall_cap': truncated,
            'runs_per_hour': round(n_runs / wall * 3600) if wall > 0 else 0,
            'sim_events': events,
            'logical_time_only': True,
            'simulated_time_note': 'kernpy reads no clock and has no timers: simulated time is the global event sequence number only',
            'fault_kinds_fired': dict(sorted(faults.items())),
            'probes': dict(sorted(probes.items())),
            'probes_stuck_at_zero': zero_probes,
            'distinct_states': {'count': distinct, 'measure': getattr(check, 'DISTINCT_MEASURE', 'distinct shape digests of non-trivial runs')},
            'configs': dict(configs),
            'known_findings_hit': dict(known_hits),
            'known_findings_examples': canaries,
            'optimised_interpreter_leg': {'runs': opt_leg[2], 'exit': opt_leg[0], 'note': 'the same check under python -O (asserts stripped), a small batch'},
            'unlisted_violations': unlisted_n,
            'unlisted_signatures': dict(unlisted_sigs.most_common(20)),
            'components': check.COMPONENTS,
            'batch_digest': batch_digest,
            'batch_digest_hash_insensitive': digest_of(digests_hs),
            'workers': workers,
            'hashseed': os.environ.get('PYTHONHASHSEED'),
            'exhaustive': False,
            **({'totals': dict(extra_sum)} if extra_sum else {}),
            **(check.evidence_extra(extras) if hasattr(check, 'evidence_extra') else {}),
        },
        'assumptions': check.ASSUMPTIONS,
        'wall_s': round(wall, 3),
        'violations': unlisted_n,
    }
    if write_evidence:
        os.makedirs(EVIDENCE_DIR, exist_ok=True)
        tmp = os.path.join(EVIDENCE_DIR, f'.{prop}.json.tmp')
        with open(tmp, 'w', encoding='utf-8') as f:
            json.dump(evidence, f, indent=1, ensure_ascii=False, sort_keys=False, default=str)
            f.write('\n')
        os.replace(tmp, os.path.join(EVIDENCE_DIR, f'{prop}.json'))
    if not quiet:
        log(f'done property={prop} runs={n_runs} distinct_nontrivial={distinct} events={events} wall={wall:.1f}s '
            f'runs/h={evidence["coverage"]["runs_per_hour"]} faults={dict(faults)} known_hits={dict(known_hits)} '
            f'unlisted={unlisted_n} rc={rc} batch_digest={batch_digest[:16]}')
    for line in out_lines:
        if rc == 2 and line.startswith('VIOLATION '):
            log('(not reported as a violation because the batch had harness trouble: ' + line + ')')
            continue
        print(line)
    sys.stdout.flush()
    global _SERVER
    if _SERVER is not None:
        _SERVER.close()
        _SERVER = None
    return rc, evidence, replay_path


# --------------------------------------------------------------------------------------------
# minimisation and replay
# --------------------------------------------------------------------------------------------

def eval_isolated(check, known, preceding, plan, signature, timeout=300):
    """Execute ``preceding`` plans and then ``plan`` in a fresh fork of this process; return the first unlisted violation of
    the last plan whose signature equals ``signature`` (or None), plus all signatures seen. Every evaluation of the
    minimiser and of replay goes through here, so candidates never contaminate each other."""
    import pickle
    sys.stdout.flush()
    sys.stderr.flush()
    r, w = os.pipe()
    pid = os.fork()
    if pid == 0:
        os.close(r)
        out = {'hit': None, 'sigs': [], 'error': None}
        try:
            faulthandler.dump_traceback_later(timeout, exit=True)
            for p in preceding:
                try:
                    check.execute(p)
                except BaseException:  # noqa - a preceding run only matters for the state it leaves behind
                    pass
            res = check.execute(plan)
            for v in res.get('violations', []):
                out['sigs'].append(v['signature'])
                if out['hit'] is None and (signature is None or v['signature'] == signature) and classify(check, v, known) is None:
                    out['hit'] = v
        except BaseException as e:  # noqa
            out['error'] = repr(e)[:300]
        try:
            with os.fdopen(w, 'wb') as f:
                f.write(pickle.dumps(out))
        finally:
            os._exit(0)
    os.close(w)
    with os.fdopen(r, 'rb') as f:
        data = f.read()
    os.waitpid(pid, 0)
    if not data:
        return {'hit': None, 'sigs': [], 'error': 'child died'}
    return pickle.loads(data)


class ReplayServer:
    """A FRESH interpreter (same bootstrap as `./check <id> --replay`) that evaluates plans, each in its own fork.

    The minimiser and the choice of the violation to report go through it, so "reproduces" always means "reproduces in a
    fresh process started the way replay starts" - not merely in a fork of the batch parent, whose heap (object addresses,
    hence id()-keyed state of the tree under test) has a different history."""

    def __init__(self, prop):
        import subprocess
        env = dict(os.environ)
        env['SIMKIT_NO_REEXEC'] = '1'         # PYTHONHASHSEED is already pinned in this process; inherit it
        self.p = subprocess.Popen([sys.executable] + _py_flags() + [os.path.join(VERIF_DIR, 'check'), prop, '--serve'], stdin=subprocess.PIPE,
                                  stdout=subprocess.PIPE, env=env, cwd=VERIF_DIR, text=True)

    def eval(self, preceding, plan, signature):
        try:
            self.p.stdin.write(json.dumps({'preceding': preceding, 'plan': plan, 'signature': signature}) + '\n')
            self.p.stdin.flush()
            line = self.p.stdout.readline()
            if not line:
                return {'hit': None, 'sigs': [], 'error': 'replay server died'}
            return json.loads(line)
        except Exception as e:
            return {'hit': None, 'sigs': [], 'error': repr(e)[:200]}

    def close(self):
        try:
            self.p.stdin.close()
            self.p.wait(timeout=10)
        except Exception:
            self.p.kill()


def serve(check):
    """--serve: read {preceding, plan, signature} per line, answer with the eval_isolated result (JSON per line)."""
    known = load_known(check.PROPERTY)
    for line in sys.stdin:
        line = line.strip()
        if not line:
            continue
        req = json.loads(line)
        r = eval_isolated(check, known, req['preceding'], req['plan'], req['signature'])
        sys.stdout.write(json.dumps(r, default=str) + '\n')
        sys.stdout.flush()
    return 0


_SERVER = None


def _server_eval(check, preceding, plan, sig):
    global _SERVER
    if _SERVER is None:
        _SERVER = ReplayServer(check.PROPERTY)
    return _SERVER.eval(preceding, plan, sig)


_REPLAY_ACCEPTED = {}


def _replay_command_reproduces(check, path, times=2):
    """The acceptance test of a replay file: the real replay command, in brand-new interpreters, reproduces it every time."""
    import subprocess
    env = dict(os.environ)
    env.pop('SIMKIT_NO_REEXEC', None)
    for _ in range(times):
        r = subprocess.run([sys.executable, os.path.join(VERIF_DIR, 'check'), check.PROPERTY, '--replay', path], env=env, cwd=VERIF_DIR,
                           capture_output=True, text=True, timeout=900)
        if r.returncode != 1:
            return False
    _REPLAY_ACCEPTED[path] = True
    return True


def _report_first_reproducible(check, seed, tier, unlisted, known):
    """Walk the unlisted violations in (run, seq) order and report the first one whose replay file reproduces with the real
    replay command in brand-new interpreters: alone, or - when it depends on process-global state left behind by earlier runs
    of its chunk - after those runs' literal plans; minimised if the minimised file passes that test, else unminimised."""
    tried = 0
    for run_i, seq, v, plan, chunk_first in unlisted[:24]:
        tried += 1
        sig = v['signature']
        preceding = None
        if _server_eval(check, [], plan, sig)['hit'] is not None:
            preceding = []
        else:
            pre = [check.gen_plan(seed, j, tier) for j in range(chunk_first, run_i)]
            if pre and _server_eval(check, pre, plan, sig)['hit'] is not None:
                log(f'note: violation of run {run_i} depends on state left by earlier runs of its chunk ({chunk_first}..{run_i - 1}); they are part of the replay')
                preceding = pre
        if preceding is not None:
            path = _minimise_and_write(check, seed, tier, run_i, v, plan, known, preceding)
            if _replay_command_reproduces(check, path):
                return run_i, seq, v, plan, path
            log(f'warning: the minimised replay of run {run_i} is not stable across fresh interpreters (object-address dependent?); trying it unminimised')
            path = _minimise_and_write(check, seed, tier, run_i, v, plan, known, preceding, minimise=False)
            if _replay_command_reproduces(check, path):
                return run_i, seq, v, plan, path
        log(f'warning: violation {sig} of run {run_i} did not reproduce in a fresh process; trying the next one')
    run_i, seq, v, plan, chunk_first = unlisted[0]
    log('warning: none of the first unlisted violations reproduced in isolation; reporting the first one unminimised')
    return run_i, seq, v, plan, _minimise_and_write(check, seed, tier, run_i, v, plan, known, [], reproducible=False)


def _minimise_and_write(check, seed, tier, run_i, v, plan, known, preceding, reproducible=True, minimise=True):
    from .ddmin import Budget, ddmin_list
    sig = v['signature']
    minimised = plan
    steps = 0
    t0 = time.time()
    budget = Budget(int(os.environ.get('VERIF_SHRINK_BUDGET', '400')))
    deadline = t0 + float(os.environ.get('VERIF_SHRINK_WALL_S', '240'))
    prec = list(preceding)

    def fails_with(pre, p):
        nonlocal steps
        if time.time() > deadline:
            return False
        steps += 1
        return _server_eval(check, pre, p, sig)['hit'] is not None

    if reproducible and minimise:
        try:
            if prec:
                prec = ddmin_list(prec, lambda pre: fails_with(pre, plan), budget, min_len=1)
            cand = check.shrink(plan, lambda p: fails_with(prec, p), budget)
            if fails_with(prec, cand) or _server_eval(check, prec, cand, sig)['hit'] is not None:
                minimised = cand
        except Exception as e:
            log(f'warning: minimiser failed ({e!r}); reporting the unminimised plan')
            minimised = plan
    final_v = v
    r = _server_eval(check, prec, minimised, sig)
    if r['hit'] is not None:
        final_v = r['hit']
    os.makedirs(os.path.join(REPLAY_DIR, check.PROPERTY), exist_ok=True)
    path = os.path.join(REPLAY_DIR, check.PROPERTY, f'{seed}-{run_i}.json')
    doc = {
        'property': check.PROPERTY,
        'verif_seed': seed,
        'run': run_i,
        'tier': tier,
        'hashseed': os.environ.get('PYTHONHASHSEED'),
        'python_optimize': sys.flags.optimize,
        'kernpy_src': kernpy_src(),
        'class': final_v['class'],
        'signature': sig,
        'violation': {k: final_v.get(k) for k in ('class', 'signature', 'seq', 'expected', 'actual', 'detail')},
        'minimised': minimised is not plan or len(prec) != len(preceding),
        'reproduced_in_isolation': r['hit'] is not None,
        'shrink_evaluations': steps,
        'shrink_wall_s': round(time.time() - t0, 2),
        'preceding_plans': prec,
        'preceding_note': ('the violation depends on process-global state left behind by these earlier runs of the same chunk; '
                           'replay executes them first, in this order, in one fresh process') if prec else None,
        'plan': minimised,
        'original_plan': plan if minimised is not plan else None,
        'how_to_replay': f'./check {check.PROPERTY} --replay <this file>',
    }
    with open(path, 'w', encoding='utf-8') as f:
        json.dump(doc, f, indent=1, ensure_ascii=False, default=str)
        f.write('\n')
    return path


def replay(check, path: str) -> int:
    with open(path, encoding='utf-8') as f:
        doc = json.load(f)
    known = load_known(check.PROPERTY)
    log(f'replay {path}: expecting signature {doc["signature"]}' + (f' after {len(doc["preceding_plans"])} preceding run(s)' if doc.get('preceding_plans') else ''))
    # look for an UNLISTED violation with the recorded signature first; only if there is none, accept one that a listed
    # finding explains (several violations of one run can share a signature)
    r = eval_isolated(check, known, doc.get('preceding_plans') or [], doc['plan'], doc['signature'])
    if r['hit'] is None and not r['error']:
        r = eval_isolated(check, [], doc.get('preceding_plans') or [], doc['plan'], doc['signature'])
    if r['error']:
        log(f'HARNESS-ERROR while replaying: {r["error"]}')
        return 2
    if r['hit'] is not None:
        v = r['hit']
        log(f'reproduced: class={v["class"]} signature={v["signature"]} seq={v.get("seq")}')
        log(f'  expected: {json.dumps(v.get("expected"), ensure_ascii=False, default=str)[:1500]}')
        log(f'  actual:   {json.dumps(v.get("actual"), ensure_ascii=False, default=str)[:1500]}')
        kid = classify(check, v, known)
        if kid:
            print(f'KNOWN-FINDING: property={check.PROPERTY} {kid} (replay)')
            return 0
        print(f'VIOLATION property={check.PROPERTY} replay={path}')
        return 1
    log(f'did not reproduce (other signatures seen: {r["sigs"][:5]})')
    return 2


# --------------------------------------------------------------------------------------------
# command line
# --------------------------------------------------------------------------------------------

def main(load_check, argv=None):
    ap = argparse.ArgumentParser()
    ap.add_argument('--tier', default=os.environ.get('VERIF_TIER') or 'quick', choices=['quick', 'thorough'])
    ap.add_argument('--replay')
    ap.add_argument('--runs', type=int)
    ap.add_argument('--start', type=int, default=0)
    ap.add_argument('--workers', type=int)
    ap.add_argument('--wall-cap', type=float)
    ap.add_argument('--no-evidence', action='store_true')
    ap.add_argument('--digest-only', action='store_true', help='print the batch digest on stdout (self-tests)')
    ap.add_argument('--serve', action='store_true', help='internal: evaluate plans read from stdin (used by the minimiser)')
    ap.add_argument('--leg', action='store_true', help='internal: this batch is a leg of another batch (no canaries, no further legs)')
    args = ap.parse_args(argv)
    hashseed = None
    optimize = None
    if args.replay:
        with open(args.replay, encoding='utf-8') as f:
            rf = json.load(f)
        hashseed = rf.get('hashseed')
        optimize = rf.get('python_optimize', 0)
    try:
        bootstrap(hashseed, optimize)
        check = load_check()
        if args.replay:
            return replay(check, args.replay)
        if args.serve:
            return serve(check)
        rc, ev, _ = run_batch(check, args.tier, seeds.verif_seed(), runs=args.runs, start=args.start,
                              workers=args.workers, wall_cap_s=args.wall_cap if not args.digest_only else 1e9,   # a digest must never be truncated
                              write_evidence=not args.no_evidence and not args.digest_only,
                              quiet=args.digest_only, leg=args.leg or args.digest_only)
        if args.digest_only:
            print(ev['coverage']['batch_digest'])
            print('hs:' + ev['coverage']['batch_digest_hash_insensitive'])
        return rc
    except HarnessError as e:
        log(f'HARNESS-ERROR {e}')
        return 2
    except Exception:
        log('HARNESS-ERROR ' + traceback.format_exc())
        return 2
