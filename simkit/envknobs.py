"""Interpreter-environment knobs shared by the checks (the process around kernpy, not kernpy's input)."""
import contextlib


@contextlib.contextmanager
def debug_logging(on):
    """The root logger at DEBUG with a handler that formats every record (so lazily evaluated arguments ARE evaluated), restored after."""
    import logging
    if not on:
        yield
        return
    root = logging.getLogger()
    old_level, old_disable = root.level, logging.root.manager.disable

    class _Sink(logging.Handler):
        def emit(self, record):
            record.getMessage()
    h = _Sink(level=logging.DEBUG)
    root.addHandler(h)
    root.setLevel(logging.DEBUG)
    logging.disable(logging.NOTSET)
    try:
        yield
    finally:
        root.removeHandler(h)
        root.setLevel(old_level)
        logging.disable(old_disable)
