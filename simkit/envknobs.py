"""Interpreter-environment knobs shared by the checks (the process around kernpy, not kernpy's input)."""
import contextlib


@contextlib.contextmanager
def debug_logging(on):
    """The root logger at DEBUG with a handler that formats every record (so lazily evaluated arguments ARE evaluated), restored after."""
    import logging
    if not on:
        yield
        return
    root = logging.getLogger()
    old_level, old_disable = root.level, logging.root.manager.disable

    class _Sink(logging.Handler):
        def emit(self, record):
            record.getMessage()
    h = _Sink(level=logging.DEBUG)
    root.addHandler(h)
    root.setLevel(logging.DEBUG)
    logging.disable(logging.NOTSET)
    try:
        yield
    finally:
        root.removeHandler(h)
        root.setLevel(old_level)
        logging.disable(old_disable)


@contextlib.contextmanager
def closed_stderr(on):
    """sys.stderr is a CLOSED text stream (a daemon after `2>&-`, a GUI launcher): anything that writes to it raises ValueError.
    The harness itself never writes to sys.stderr inside a run (progress is printed by the batch driver in the parent)."""
    import io
    import sys
    if not on:
        yield
        return
    old = sys.stderr
    dead = io.StringIO()
    dead.close()
    sys.stderr = dead
    try:
        yield
    finally:
        sys.stderr = old
