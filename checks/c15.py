"""C15 - transposing a document moves pitches and nothing else  (engine: sim-history, DESIGN 4.3).

System under simulation: a pool of document handles that alias each other (sources, clones, transposed
results, results transposed again/back) driven by a seeded call history.  Reference model (independent of
kernpy): a note is (letter, alteration, octave); an interval name maps to (diatonic steps, semitones) by
construction from quality and number.

Cross-invariant after EVERY operation, for EVERY live handle: its exports equal what was recorded when the
handle was created (this is what exposes aliasing between source and result).  A result handle's eKern export
must equal the source's export with exactly the pitch/accidental fields of the notes replaced by the model's
spelling.  A failed call (invalid argument, unspellable pitch midway, injected interruption) leaves every
handle as it was.
"""
from __future__ import annotations

from simkit import seeds, docgen
from simkit.ddmin import ddmin_list
from simkit.eventlog import EventLog, digest_of
from simkit import interrupt as intr
from simkit.runner import kernpy_src

NAT = [0, 2, 4, 5, 7, 9, 11]
LET = 'cdefgab'
PERFECT = {1, 4, 5}


def interval_model(name: str):
    """(diatonic steps, semitones) from quality and number, e.g. 'm3' -> (2, 3), 'AA4' -> (3, 7)."""
    if name == 'octave':
        return 7, 12
    q = name.rstrip('0123456789')
    n = int(name[len(q):])
    base = NAT[n - 1]
    if n in PERFECT:
        off = {'P': 0, 'A': 1, 'AA': 2, 'd': -1, 'dd': -2}[q]
    else:
        off = {'M': 0, 'm': -1, 'A': 1, 'AA': 2, 'd': -2, 'dd': -3}[q]
    return n - 1, base + off


ALL_INTERVALS = ['P1', 'A1', 'AA1', 'd1', 'dd1'] + [q + str(n) for n in (2, 3, 6, 7) for q in ('dd', 'd', 'm', 'M', 'A', 'AA')] + \
                [q + str(n) for n in (4, 5) for q in ('dd', 'd', 'P', 'A', 'AA')] + ['octave']
EXTREME = ['dd2', 'AA2', 'AA5', 'dd5', 'AA1', 'dd1', 'AA3', 'dd3', 'AA4', 'dd4', 'AA6', 'dd6', 'AA7', 'dd7']
ACC_VALUE = {'': 0, '#': 1, '##': 2, '###': 3, '-': -1, '--': -2, '---': -3, 'n': 0}


def transpose_model(letter: str, alt: int, octave: int, iv: str, direction: str):
    """-> (letter, alt, octave). Pure letter/semitone arithmetic."""
    steps, semis = interval_model(iv)
    if direction == 'down':
        steps, semis = -steps, -semis
    L = LET.index(letter)
    D = octave * 7 + L + steps
    P = octave * 12 + NAT[L] + alt + semis
    L2, o2 = D % 7, D // 7
    return LET[L2], P - (o2 * 12 + NAT[L2]), o2


def spell(letter, alt, octave):
    body = letter.lower() * (octave - 3) if octave >= 4 else letter.upper() * (4 - octave)
    return body + ('#' * alt if alt > 0 else '-' * (-alt))


def is_pitch_field(s):
    return bool(s) and all(ch in 'abcdefgABCDEFG' for ch in s)


def split_cell(cell: str):
    """eKern note cell -> (duration fields, pitch-and-accidental text, decorations list)."""
    main, sep, dec = cell.partition('·')
    fields = main.split('@')
    pi = next((i for i, f in enumerate(fields) if f and f[0] in 'abcdefgABCDEFG'), None)
    if pi is None:
        return fields, None, dec
    return fields[:pi], ''.join(fields[pi:]), dec


SIX = ['kern', 'ekern', 'bkern', 'bekern', 'akern', 'aekern']


class C15:
    PROPERTY = 'C15'
    TIERS = {
        'quick': {'runs': 5600, 'wall_cap_s': 300, 'chunk': 40, 'opt_leg_runs': 300},
        'thorough': {'runs': 160000, 'wall_cap_s': 1500, 'chunk': 50, 'opt_leg_runs': 1200},
    }
    RULE = ('a pool of <=5 document handles driven by <=8 seeded operations: import, to_transposed (all 40 interval names x 2 '
            'directions, biased to extreme intervals that become unspellable midway), transpose a result back, transpose a result '
            'again (chains), clone, dumps, invalid interval/direction, and (fault-injecting configuration) to_transposed interrupted at '
            'a seeded line event. Core configuration: **kern notes without explicit accidentals, no chords, no **root/**mxhm spines '
            '(strict). Extended configuration: accidentals incl. n and display suffixes, chords, note-like cells in **root/**mxhm. '
            'Non-trivial: at least one transposition succeeded on a document with >=1 note and a source handle was re-checked after it. '
            'Distinct: digest of (document shapes, operation sequence with interval, direction, chain shape).')
    DISTINCT_MEASURE = 'distinct (document shapes, operation sequence incl. interval/direction/handle graph) digests'
    COMPONENTS = {'real': ['Document.to_transposed', 'Document.clone', 'transposer.transpose', 'pitch_models', 'kernpy.loads', 'kernpy.dumps (six encodings)'],
                  'stub': []}
    ASSUMPTIONS = ['kernpy\'s export of the SOURCE is taken as given (reference path); the result is compared against it field by field',
                   'interval arithmetic model built from interval quality and number (letter steps, semitones), independent of base-40',
                   'a resulting pitch with more than two accidentals is unconstrained: the call may raise or produce anything for that note',
                   'note cells are located through the generator\'s abstract document, pitch fields through the @-separated eKern cell']
    PROBES = ['fails_midway', 'chain_len_ge_3', 'result_needs_accidental', 'octave_crossed', 'down_direction', 'back_restores',
              'interrupt_delivered', 'invalid_argument', 'clone_then_transpose', 'source_rechecked_after_transpose', 'background_pitch_api', 'long_score_over_recursion_limit', 'reentrant_callback_delivered']

    # ---------------------------------------------------------------- plan
    def gen_plan(self, seed, index, tier):
        st = seeds.Streams(seed, self.PROPERTY, index)
        drng, rng, frng, erng = st['doc'], st['ops'], st['faults'], st['env']
        core = erng.random() < 0.6
        faulty = erng.random() < 0.5
        long_run = erng.random() < 0.012
        ndocs = 1 if long_run else drng.choice([1, 1, 2])
        docs = []
        if long_run:
            # a score longer than the interpreter's recursion limit; few operations (every import/export costs ~1 s)
            docs.append(docgen.gen_long_doc(drng, rows=drng.choice([1050, 1200, 1500])).to_json())
            core = True
            ops = [{'op': 'import', 'doc': 0}, {'op': 'transpose', 'h': 0, 'iv': rng.choice(['M2', 'P5', 'm3', 'octave', 'A4']), 'dir': rng.choice(['up', 'down'])}]
            if rng.random() < 0.5:
                ops.append({'op': 'back', 'h': 1})
            return {'property': self.PROPERTY, 'config': 'fault_free', 'class': 'core', 'docs': docs, 'ops': ops, 'warnings': 'default', 'long': True}
        for _ in range(ndocs):
            if core:
                F = docgen.swarm_features(drng, accidentals=False, acc_display=False, chords=False, combining_sigs=False, quote_cells=False,
                                          uls_cells=False, notelike_nonkern=False)
                d = docgen.gen_doc(drng, F, max_spines=3, max_rows=14, exclude_headers=('**root', '**mxhm'))
            else:
                F = docgen.swarm_features(drng, combining_sigs=False, quote_cells=False, uls_cells=False)
                F['accidentals'] = True
                d = docgen.gen_doc(drng, F, max_spines=3, max_rows=14)
            docs.append(d.to_json())
        ops = [{'op': 'import', 'doc': 0}]
        n = rng.randint(2, 7)
        # the interval of run i sweeps the 40 names x 2 directions so every 80 consecutive runs cover the whole set
        sweep_iv = ALL_INTERVALS[index % 40]
        sweep_dir = 'up' if (index // 40) % 2 == 0 else 'down'
        ops.append({'op': 'transpose', 'h': 0, 'iv': sweep_iv, 'dir': sweep_dir})
        for _ in range(n):
            kind = seeds.weighted(rng, [('transpose', 6), ('back', 4), ('clone', 1.5), ('import', 1), ('dumps', 1), ('bg_pitch', 1.2),
                                        ('bad', 1.2 if faulty else 0), ('interrupt', 3.6 if faulty else 0)])
            h = rng.randrange(16)
            if kind == 'transpose':
                iv = rng.choice(EXTREME) if rng.random() < 0.25 else rng.choice(ALL_INTERVALS)
                ops.append({'op': 'transpose', 'h': h, 'iv': iv, 'dir': rng.choice(['up', 'down'])})
                if faulty and frng.random() < 0.15:
                    # re-entrancy: at a seeded line event of this to_transposed a callback (signal handler, finalizer, logging
                    # hook) uses the public pitch API for ANOTHER pitch and returns; two transpositions are then in flight at once
                    ops[-1]['reenter'] = {'k_u': frng.randrange(1 << 30), 'pitch': frng.choice(['c', 'dd', 'E', 'f#', 'gg-', 'AA', 'b-', 'cc#']),
                                          'iv': frng.choice(['M2', 'm3', 'P5', 'A4', 'octave', 'd5']), 'dir': frng.choice(['up', 'down'])}
            elif kind == 'back':
                ops.append({'op': 'back', 'h': h})
            elif kind == 'clone':
                ops.append({'op': 'clone', 'h': h})
            elif kind == 'import':
                ops.append({'op': 'import', 'doc': rng.randrange(ndocs)})
            elif kind == 'dumps':
                ops.append({'op': 'dumps', 'h': h, 'enc': rng.choice(SIX)})
            elif kind == 'bg_pitch':
                # background traffic through the PUBLIC pitch API: the caller owns what these functions return and may edit it
                ops.append({'op': 'bg_pitch', 'pitch': rng.choice(['c', 'dd', 'E', 'f', 'gg', 'AA', 'b', 'cc', 'e', 'GG', 'a', 'ccc']),
                            'iv': rng.choice(ALL_INTERVALS), 'dir': rng.choice(['up', 'down']), 'edit': rng.choice(['octave-1', 'octave+1', 'name', 'none'])})
            elif kind == 'bad':
                if frng.random() < 0.5:
                    ops.append({'op': 'bad', 'h': h, 'iv': frng.choice(['X9', 'M8', 'p5', '', 'P 5', 'm1', 'M4']), 'dir': 'up'})
                else:
                    ops.append({'op': 'bad', 'h': h, 'iv': 'M2', 'dir': frng.choice(['sideways', 'UP', '', 'Down'])})
            else:
                # half of the interruptions are placed inside the copy phase (the part of the call that creates in-flight state
                # shared with the source), the others anywhere in the call
                ops.append({'op': 'interrupt', 'h': h, 'iv': frng.choice([i for i in ALL_INTERVALS if i != 'P1']), 'dir': frng.choice(['up', 'down']),
                            'k_u': frng.randrange(1 << 30), 'payload': frng.choice(['SimInterrupt', 'MemoryError', 'MemoryError']),
                            'phase': frng.choice(['copy', 'any'])})
        return {'property': self.PROPERTY, 'config': 'fault_injecting' if faulty else 'fault_free', 'class': 'core' if core else 'extended',
                'docs': docs, 'ops': ops, 'warnings': 'error' if erng.random() < 0.1 else 'default',
                'logging': 'DEBUG' if erng.random() < 0.08 else 'default'}

    def summarize(self, plan):
        return {'class': plan['class'], 'config': plan['config'], 'texts': [docgen.Doc.from_json(d).render() for d in plan['docs']], 'ops': plan['ops']}

    # ---------------------------------------------------------------- execution
    def execute(self, plan):
        import warnings
        with warnings.catch_warnings():
            # interpreter environment knob: 10% of the runs treat every warning as an error (python -W error)
            warnings.simplefilter('error' if plan.get('warnings') == 'error' else 'ignore')
            from simkit.envknobs import debug_logging
            with debug_logging(plan.get('logging') == 'DEBUG'):     # the application has switched logging to DEBUG
                return self._execute(plan)

    def _execute(self, plan):
        import kernpy as kp
        log = EventLog()
        viol, faults, probes = [], {}, {}
        core = plan['class'] == 'core'

        def fresh(s):
            # an equal but not identical string object, as it arrives from argv, JSON or a config file (never interned)
            return (s + ' ')[:-1] if isinstance(s, str) else s

        def bump(d, k, n=1):
            d[k] = d.get(k, 0) + n

        def add_v(cls, sig, expected, actual, **detail):
            viol.append({'class': cls, 'signature': sig, 'seq': log.seq, 'expected': expected, 'actual': actual, 'detail': detail})

        docs = [docgen.Doc.from_json(d) for d in plan['docs']]
        if plan.get('long'):
            bump(probes, 'long_score_over_recursion_limit')
        if not all(d.consistent() for d in docs):
            from simkit.runner import HarnessError
            raise HarnessError('plan document: the abstract annotation does not match its own spine operators')
        texts = [d.render() for d in docs]
        ENC = {'kern': kp.Encoding.normalizedKern, 'ekern': kp.Encoding.eKern, 'bkern': kp.Encoding.bKern, 'bekern': kp.Encoding.bEkern,
               'akern': kp.Encoding.agnosticKern, 'aekern': kp.Encoding.agnosticExtendedKern}

        def exports(d):
            out = {}
            for name in SIX:
                try:
                    out[name] = kp.dumps(d, encoding=ENC[name])
                except Exception as e:
                    out[name] = 'raised ' + type(e).__name__
            # the measure index belongs to the grid too: first measure, last measure, measure count
            for name, fn in (('m_first', lambda: kp.dumps(d, from_measure=1, to_measure=1, encoding=ENC['ekern'])),
                             ('m_last', lambda: kp.dumps(d, from_measure=d.measures_count(), to_measure=d.measures_count(), encoding=ENC['ekern'])),
                             ('m_count', lambda: str(d.measures_count())), ('spines', lambda: repr(kp.spine_types(d)))):
                try:
                    out[name] = fn()
                except Exception as e:
                    out[name] = 'raised ' + type(e).__name__
            return out

        ivs_done = set()
        handles = []   # dict(doc=kernpy doc, src=index into docs, chain=[(iv,dir)], recorded=exports, kind=...)

        def check_all(opname, created=None):
            for hi, h in enumerate(handles):
                if hi == created:
                    continue
                now = exports(h['doc'])
                if now != h['recorded']:
                    encs = [e for e in now if now[e] != h['recorded'][e]]
                    kind = h['kind']
                    add_v('handle-altered', f'handle-altered/{kind}/by={opname}', 'exports as recorded at creation', {'changed encodings': encs},
                          handle=hi, handle_kind=kind, op=opname, chain=h['chain'],
                          equals_result=(created is not None and now['ekern'] == handles[created]['recorded']['ekern']),
                          before=h['recorded']['ekern'][:300], after=now['ekern'][:300])
                    h['recorded'] = now     # report one alteration once
                elif h['kind'] == 'source' and opname in ('transpose', 'back', 'interrupt', 'bad'):
                    bump(probes, 'source_rechecked_after_transpose')

        for op in plan['ops']:
            kind = op['op']
            if kind == 'bg_pitch':
                from kernpy.core.transposer import IntervalsByName
                out = []
                try:
                    ivn = IntervalsByName[op['iv']]
                    out.append(kp.transpose(fresh(op['pitch']), ivn, direction=fresh(op['dir'])))
                    p1 = kp.transpose_encoding_to_agnostic(fresh(op['pitch']), ivn, direction=fresh(op['dir']))
                    p2 = kp.transpose_agnostics(kp.AgnosticPitch(p1.name, p1.octave), ivn, direction=fresh(op['dir']))
                    out.append([p1.name, p1.octave, p2.name, p2.octave])
                    # the returned objects belong to the caller
                    for p in (p1, p2):
                        if op['edit'] == 'octave-1':
                            p.octave = p.octave - 1
                        elif op['edit'] == 'octave+1':
                            p.octave = p.octave + 1
                        elif op['edit'] == 'name':
                            p.name = 'F+' if not p.name.startswith('F') else 'B-'
                    out.append(kp.transpose_agnostic_to_encoding(kp.AgnosticPitch('C', 4), ivn, direction=fresh(op['dir'])))
                    out.append(kp.distance(fresh(op['pitch']), 'c'))
                except Exception as e:
                    out.append('raised ' + type(e).__name__)
                log.emit('background', 'bg_pitch', [op['pitch'], op['iv'], op['dir'], op['edit']], out)
                bump(probes, 'background_pitch_api')
                check_all('bg_pitch')
                continue
            if kind == 'import':
                if len(handles) >= 5:
                    continue
                di = op['doc'] % len(docs)
                try:
                    d, errs = kp.loads(texts[di])
                except Exception as e:
                    log.emit('client', 'import', di, 'raised ' + type(e).__name__)
                    add_v('import-raised', 'import-raised', 'a document', type(e).__name__)
                    continue
                rec = exports(d)
                log.emit('client', 'import', di, [len(errs), digest_of(rec)])
                handles.append({'doc': d, 'src': di, 'chain': [], 'recorded': rec, 'kind': 'source', 'base': rec['ekern']})
                check_all('import', created=len(handles) - 1)
                continue
            if not handles:
                continue
            hi = op['h'] % len(handles)
            h = handles[hi]
            if kind == 'dumps':
                try:
                    out = kp.dumps(h['doc'], encoding=ENC[op['enc']])
                except Exception as e:
                    out = 'raised ' + type(e).__name__
                log.emit('client', 'dumps', [hi, op['enc']], digest_of(out))
                if out != h['recorded'][op['enc']]:
                    add_v('handle-altered', f'handle-altered/{h["kind"]}/seen-by=dumps', h['recorded'][op['enc']][:300], out[:300], handle=hi)
                check_all('dumps')
            elif kind == 'clone':
                if len(handles) >= 5:
                    continue
                try:
                    c = h['doc'].clone()
                except Exception as e:
                    log.emit('client', 'clone', hi, 'raised ' + type(e).__name__)
                    add_v('clone-raised', 'clone-raised', 'a document', type(e).__name__)
                    continue
                rec = exports(c)
                log.emit('client', 'clone', hi, digest_of(rec))
                if rec != h['recorded']:
                    add_v('clone-differs', 'clone-differs', 'exports of the original', [e for e in rec if rec[e] != h['recorded'][e]], handle=hi)
                handles.append({'doc': c, 'src': h['src'], 'chain': list(h['chain']), 'recorded': rec, 'kind': 'clone', 'base': h['base'],
                                'unconstrained': set(h.get('unconstrained', ()))})
                check_all('clone', created=len(handles) - 1)
            elif kind in ('transpose', 'back'):
                if kind == 'back':
                    if not h['chain']:
                        continue
                    iv, d0 = h['chain'][-1]
                    direction = 'down' if d0 == 'up' else 'up'
                    new_chain = h['chain'][:-1]
                else:
                    iv, direction = op['iv'], op['dir']
                    new_chain = h['chain'] + [[iv, direction]]
                if len(handles) >= 5:
                    # replace the oldest non-source handle to keep the pool bounded
                    victims = [i for i, x in enumerate(handles) if x['kind'] != 'source' and i != hi]
                    if not victims:
                        continue
                    handles.pop(victims[0])
                    hi = handles.index(h)
                exp_cells, may_fail, uncon = self._expected(docs[h['src']], h, new_chain, kind)
                try:
                    if kind == 'transpose' and op.get('reenter'):
                        r = self._transpose_with_nested_call(kp, op, h, texts, fresh, iv, direction, add_v, probes, bump, faults, log)
                    else:
                        r = h['doc'].to_transposed(fresh(iv), fresh(direction))
                except Exception as e:
                    log.emit('client', kind, [hi, iv, direction], 'raised ' + type(e).__name__)
                    if may_fail:
                        bump(probes, 'fails_midway')
                        bump(faults, 'unspellable_midway')
                    else:
                        add_v('transpose-raised', 'transpose-raised/' + plan['class'], 'a transposed document (every result is spellable)',
                              type(e).__name__, iv=iv, dir=direction, message=str(e)[:120],
                              accidental_note_letters_unspellable=bool(self._nat_may_fail))
                    check_all(kind)
                    continue
                rec = exports(r)
                log.emit('client', kind, [hi, iv, direction], digest_of(rec))
                if r is h['doc']:
                    add_v('result-not-new', 'result-not-new', 'a new document', 'the source object itself')
                if direction == 'down':
                    bump(probes, 'down_direction')
                if len(new_chain) >= 3:
                    bump(probes, 'chain_len_ge_3')
                ivs_done.add(iv + '/' + direction)
                newh = {'doc': r, 'src': h['src'], 'chain': new_chain, 'recorded': rec, 'kind': 'result', 'base': h['base'], 'unconstrained': uncon}
                handles.append(newh)
                if h['kind'] == 'clone':
                    bump(probes, 'clone_then_transpose')
                self._check_result(docs[h['src']], h, newh, exp_cells, kind, iv, direction, plan['class'], add_v, probes, bump)
                for key in ('m_count', 'spines'):
                    if rec[key] != h['recorded'][key]:
                        add_v('grid-changed', 'grid-changed/' + key, h['recorded'][key], rec[key])
                for key in ('m_first', 'm_last'):
                    a, b = h['recorded'][key], rec[key]
                    if a.startswith('raised ') != b.startswith('raised ') or (not a.startswith('raised ') and
                                                                               [l.count('\t') for l in a.split('\n')] != [l.count('\t') for l in b.split('\n')]):
                        add_v('grid-changed', 'grid-changed/' + key, a[:200], b[:200])
                if kind == 'back' and not new_chain and not uncon:
                    # transposing back restores the source export (compared on the eKern export of the source)
                    if rec['ekern'] == h['base']:
                        bump(probes, 'back_restores')
                check_all(kind, created=len(handles) - 1)
            elif kind == 'bad':
                try:
                    h['doc'].to_transposed(fresh(op['iv']), fresh(op['dir']))
                    out = 'returned'
                except ValueError:
                    out = 'ValueError'
                except Exception as e:
                    out = 'raised ' + type(e).__name__
                log.emit('fault', 'bad', [hi, op['iv'], op['dir']], out)
                bump(faults, 'invalid_argument')
                bump(probes, 'invalid_argument')
                if out != 'ValueError':
                    add_v('invalid-argument-accepted', 'invalid-argument-accepted', 'ValueError', out, iv=op['iv'], dir=op['dir'])
                check_all('bad')
            elif kind == 'interrupt':
                inj = intr.injector(kernpy_src())
                try:
                    replica, _ = kp.loads(texts[h['src']])
                except Exception:
                    continue
                total = inj.count_events(lambda: replica.to_transposed(op['iv'], op['dir']))
                if op.get('phase') == 'copy':
                    total = min(total, inj.count_events(lambda: replica.clone()))
                if total <= 0:
                    continue
                k = 1 + op['k_u'] % total
                delivered, out = inj.run(lambda: h['doc'].to_transposed(fresh(op['iv']), fresh(op['dir'])), k, op['payload'])
                log.emit('fault', 'interrupt', [hi, op['iv'], op['dir'], op['payload']], out[0])
                bump(faults, 'interrupt_' + op['payload'])
                if delivered:
                    bump(probes, 'interrupt_delivered')
                # the interrupted call may raise; if it RETURNS NORMALLY its result must be right (DESIGN 3.6); every handle must be as it was
                if out[0] == 'ok' and out[1] is not None:
                    bump(probes, 'interrupted_call_returned_normally')
                    new_chain = h['chain'] + [[op['iv'], op['dir']]]
                    exp_cells, _mf, uncon = self._expected(docs[h['src']], h, new_chain, 'transpose')
                    try:
                        tmp = {'doc': out[1], 'src': h['src'], 'chain': new_chain, 'recorded': exports(out[1]), 'kind': 'result', 'base': h['base'], 'unconstrained': uncon}
                        self._check_result(docs[h['src']], h, tmp, exp_cells, 'transpose-after-injected-' + op['payload'], op['iv'], op['dir'], plan['class'], add_v, probes, bump)
                    except Exception as e:
                        add_v('export-raised', 'export-raised/result-of-interrupted-call', 'exports of the returned document', type(e).__name__)
                check_all('interrupt')
        n_notes = sum(1 for d in docs for _, _, c in d.data_cells() if c.kind == 'note')
        ok_transposes = sum(1 for h in handles if h['kind'] == 'result')
        nontrivial = n_notes > 0 and ok_transposes > 0 and probes.get('source_rechecked_after_transpose', 0) > 0
        shape = digest_of([[d.shape() for d in docs], [[o.get('op'), o.get('iv'), o.get('dir'), o.get('h')] for o in plan['ops']]])
        return {'digest': log.digest(), 'events': log.seq, 'faults': faults, 'probes': probes, 'shape': shape, 'nontrivial': nontrivial,
                'config': plan['config'], 'hash_sensitive': any(o['op'] == 'interrupt' or o.get('reenter') for o in plan['ops']), 'violations': viol, 'extra': {'sum': {'core_runs': 1 if core else 0, 'notes': n_notes}, 'ivs': sorted(ivs_done)}}

    @staticmethod
    def _transpose_with_nested_call(kp, op, h, texts, fresh, iv, direction, add_v, probes, bump, faults, log):
        """h.to_transposed(...) during which, at a seeded kernpy line event, a callback transposes another pitch through the public
        pitch API. The nested call must give what it gives alone; the outer call is judged by the caller like any other."""
        from kernpy.core.transposer import IntervalsByName
        re = op['reenter']

        def nested():
            ivn = IntervalsByName[re['iv']]
            p = kp.transpose_encoding_to_agnostic(re['pitch'], ivn, direction=re['dir'])
            return [kp.transpose(re['pitch'], ivn, direction=re['dir']), p.name, p.octave]
        try:
            alone = nested()
        except Exception as e:
            alone = 'raised ' + type(e).__name__
        inj = intr.injector(kernpy_src())
        total = 0
        try:
            replica, _ = kp.loads(texts[h['src']])
            total = inj.count_events(lambda: replica.to_transposed(iv, direction))
        except Exception:
            pass
        if total <= 0:
            return h['doc'].to_transposed(fresh(iv), fresh(direction))
        got = {}

        def cb():
            try:
                got['v'] = nested()
            except Exception as e:
                got['v'] = 'raised ' + type(e).__name__
        delivered, out = inj.run_with_callback(lambda: h['doc'].to_transposed(fresh(iv), fresh(direction)), 1 + re['k_u'] % total, cb)
        bump(faults, 'reentrant_callback')
        log.emit('fault', 'reenter', [re['pitch'], re['iv'], re['dir']], [delivered, out[0]])
        if delivered:
            bump(probes, 'reentrant_callback_delivered')
            if got.get('v') != alone:
                add_v('reentrancy', 'reentrancy/nested-pitch-call-differs', alone, got.get('v'), pitch=re['pitch'], iv=re['iv'])
        if out[0] != 'ok':
            raise out[1]
        return out[1]

    # ---- reference model -------------------------------------------------------------------------
    def _expected(self, doc, h, chain, kind):
        """Model pitch of every **kern note cell under ``chain``.
        -> ({(row, col): spelling or None}, may_fail, unconstrained cells)"""
        exp, uncon = {}, set(h.get('unconstrained', ()))
        may_fail = False
        self._nat_may_fail = False     # a note WITH explicit accidental whose letters alone become unspellable (finding accidental-reappended)
        for ri, ci, c in doc.data_cells():
            if c.kind != 'note' or doc.headers[c.spine] != '**kern':
                continue
            m = c.meta
            letter, alt, octave = m['letter'], ACC_VALUE.get(m['acc'], 0), m['oct']
            ok = True
            for n, (iv, direction) in enumerate(chain):
                letter, alt, octave = transpose_model(letter, alt, octave, iv, direction)
                if abs(alt) > 2:
                    ok = False
                    if n == len(chain) - 1 or True:
                        may_fail = True
                    break
            if not ok or (ri, ci) in uncon:
                uncon.add((ri, ci))
                exp[(ri, ci)] = None
            else:
                exp[(ri, ci)] = spell(letter, alt, octave)
            if m['acc']:
                l2, a2, o2 = m['letter'], 0, m['oct']
                for iv, direction in chain:
                    l2, a2, o2 = transpose_model(l2, a2, o2, iv, direction)
                    if abs(a2) > 2:
                        self._nat_may_fail = True
                        break
        # chords / root / mxhm note-like cells: the call may also fail on them (their pitches are transposed by kernpy
        # although the statement says otherwise; unspellable there is excused in the same way)
        for ri, ci, c in doc.data_cells():
            if c.kind in ('rootnote', 'notelike', 'chord') and chain:
                may_fail = may_fail or self._other_may_fail(c, chain)
        return exp, may_fail, uncon

    @staticmethod
    def _other_may_fail(c, chain):
        metas = []
        if c.kind == 'chord':
            metas = c.meta['chord']
        elif c.kind == 'rootnote':
            metas = [c.meta]
        else:
            return True       # free-text cell that kernpy happens to parse as a note: no model
        for m in metas:
            accs = [ACC_VALUE.get(m['acc'], 0)]
            # kernpy transposes the letters of such notes with or without their accidental: excuse either way
            for a0 in set(accs + [0]):
                letter, alt, octave = m['letter'], a0, m['oct']
                for iv, direction in chain:
                    letter, alt, octave = transpose_model(letter, alt, octave, iv, direction)
                    if abs(alt) > 2:
                        return True
        return False

    def _check_result(self, doc, src_h, res_h, exp_cells, kind, iv, direction, klass, add_v, probes, bump):
        """The result's eKern export = the SOURCE handle's recorded eKern export with the note pitches replaced."""
        base_lines = self._lines(src_h['base'] if False else src_h['recorded']['ekern'])
        got_lines = self._lines(res_h['recorded']['ekern'])
        root_lines = self._lines(res_h['base'])
        if isinstance(base_lines, str) or isinstance(got_lines, str):
            add_v('export-raised', 'export-raised', 'eKern text', [str(base_lines)[:40], str(got_lines)[:40]])
            return
        # alignment of export lines with abstract rows, through the source import's own tokens
        kdoc = res_h['doc']
        stages = kdoc.tree.stages
        rows = []
        for ri, r in enumerate(doc.rows):
            if r.kind == 'global':
                continue
            cols = [ci for ci, c in enumerate(r.cells) if doc.headers[c.spine] in docgen.EXPORTED_HEADERS]
            if ri + 1 >= len(stages) or len(stages[ri + 1]) != len(r.cells):
                add_v('grid-changed', 'grid-changed', len(r.cells), len(stages[ri + 1]) if ri + 1 < len(stages) else None, row=ri)
                return
            nullish = all(bool(getattr(stages[ri + 1][ci].token, 'hidden', False)) or stages[ri + 1][ci].token.encoding in ('.', '*', '') for ci in cols)
            if cols and not nullish:
                rows.append((ri, cols))
        if len(rows) != len(root_lines) or len(got_lines) != len(root_lines):
            if len(got_lines) != len(root_lines):
                add_v('grid-changed', 'grid-changed/lines', len(root_lines), len(got_lines))
            else:
                bump(probes, 'alignment_failed')
            return
        for (ri, cols), rl, gl in zip(rows, root_lines, got_lines):
            rc, gc = rl.split('\t'), gl.split('\t')
            if len(rc) != len(cols) or len(gc) != len(cols):
                if len(gc) != len(rc):
                    add_v('grid-changed', 'grid-changed/cells', len(rc), len(gc), row=ri)
                else:
                    bump(probes, 'alignment_failed')
                return
            for pos, ci in enumerate(cols):
                c = doc.rows[ri].cells[ci]
                hdr = doc.headers[c.spine]
                src_cell, got_cell = rc[pos], gc[pos]
                if (ri, ci) in exp_cells:
                    want = exp_cells[(ri, ci)]
                    if want is None:
                        continue        # unconstrained (more than two accidentals somewhere along the chain)
                    sdur, spitch, sdec = split_cell(src_cell)
                    gdur, gpitch, gdec = split_cell(got_cell)
                    if gdur != sdur or gdec != sdec:
                        add_v('non-pitch-part-changed', 'non-pitch-part-changed', [sdur, sdec], [gdur, gdec], row=ri, col=ci, source_cell=src_cell, result_cell=got_cell)
                    if gpitch != want:
                        m = c.meta
                        nat = None
                        nat_unspellable = False
                        if m['acc']:
                            # what kernpy's "transpose the letters, re-append the old accidental" would give
                            l2, a2, o2 = m['letter'], 0, m['oct']
                            okc = True
                            for iv2, d2 in res_h['chain']:
                                l2, a2, o2 = transpose_model(l2, a2, o2, iv2, d2)
                                okc = okc and abs(a2) <= 2
                            nat = spell(l2, a2, o2) + m['acc'] + m['disp'] if okc else None
                            nat_unspellable = not okc
                        add_v('pitch-wrong', 'pitch-wrong/' + ('explicit-accidental' if m['acc'] else 'plain-note') + '/' + klass, want, gpitch,
                              row=ri, col=ci, source_cell=src_cell, result_cell=got_cell, chain=res_h['chain'], cell_kind='note',
                              has_accidental=bool(m['acc']), natural_plus_old_accidental=nat, letters_alone_unspellable=nat_unspellable,
                              old_accidental=m['acc'] + m['disp'])
                    else:
                        if want and want[-1] in '#-':
                            bump(probes, 'result_needs_accidental')
                        if spitch is not None and len(spitch.rstrip('#-n')) != len(want.rstrip('#-')) or (spitch and spitch[0].islower() != want[0].islower()):
                            bump(probes, 'octave_crossed')
                    continue
                if got_cell == src_cell:
                    if c.kind == 'chord' and hdr == '**kern' and any(interval_model(i)[1] % 12 != 0 or interval_model(i)[0] % 7 != 0 for i, _ in res_h['chain'][-1:]):
                        add_v('pitch-wrong', 'pitch-wrong/chord/' + klass, 'every chord note transposed', got_cell, row=ri, col=ci, source_cell=src_cell,
                              result_cell=got_cell, cell_kind='chord', identical_to_source=True, chain=res_h['chain'])
                    continue
                if c.kind == 'chord' and hdr == '**kern':
                    # the chord was rewritten (a tree that repaired chord-untouched): every note must follow the model
                    ns, ng = src_cell.split(' '), got_cell.split(' ')
                    metas = c.meta['chord']
                    if len(ns) == len(ng) == len(metas):
                        bad = None
                        for a, b, m in zip(ns, ng, metas):
                            l2, a2, o2 = m['letter'], ACC_VALUE.get(m['acc'], 0), m['oct']
                            ok2 = True
                            for iv2, d2 in res_h['chain']:
                                l2, a2, o2 = transpose_model(l2, a2, o2, iv2, d2)
                                ok2 = ok2 and abs(a2) <= 2
                            sdur, spitch, sdec = split_cell(a)
                            gdur, gpitch, gdec = split_cell(b)
                            if ok2 and (gdur != sdur or gdec != sdec or gpitch != spell(l2, a2, o2)):
                                bad = [a, b, spell(l2, a2, o2)]
                                break
                        if bad is None:
                            continue
                        add_v('pitch-wrong', 'pitch-wrong/chord-note/' + klass, bad[2], bad[1], row=ri, col=ci, source_cell=src_cell, result_cell=got_cell,
                              cell_kind='chord', identical_to_source=False, chain=res_h['chain'])
                        continue
                # a cell that is not a **kern single note changed
                tok_cls = type(stages[ri + 1][ci].token).__name__
                sdur, spitch, sdec = split_cell(src_cell)
                gdur, gpitch, gdec = split_cell(got_cell)
                add_v('other-cell-changed', f'other-cell-changed/{c.kind}/{hdr if hdr != "**kern" else "kern"}', src_cell, got_cell, row=ri, col=ci,
                      header=hdr, cell_kind=c.kind, token_class=tok_cls, only_pitch_differs=(sdur == gdur and sdec == gdec and spitch != gpitch))

    @staticmethod
    def _lines(text):
        if not isinstance(text, str) or text.startswith('raised '):
            return str(text)
        ls = text.split('\n')
        if ls and ls[-1] == '':
            ls.pop()
        return ls

    # ---------------------------------------------------------------- minimisation
    def shrink(self, plan, still_fails, budget):
        cur = dict(plan)
        ops = ddmin_list(cur['ops'], lambda o: still_fails(dict(cur, ops=o)), budget, min_len=1)
        if still_fails(dict(cur, ops=ops)):
            cur = dict(cur, ops=ops)
        # drop rows of each document (keep header + terminator); candidate must still import cleanly
        import kernpy as kp
        for di in range(len(cur['docs'])):
            doc = cur['docs'][di]
            idx = list(range(len(doc['rows'])))

            def build(ix, di=di, doc=doc):
                nd = dict(doc, rows=[doc['rows'][i] for i in sorted(ix)])
                docs = list(cur['docs'])
                docs[di] = nd
                return dict(cur, docs=docs)

            def test(ix):
                p = build(ix)
                try:
                    cand = docgen.Doc.from_json(p['docs'][di])
                    if not cand.consistent():
                        return False
                    d, e = kp.loads(cand.render())
                    if e:
                        return False
                except Exception:
                    return False
                return still_fails(p)

            ix = ddmin_list(idx, test, budget, min_len=2)
            p = build(ix)
            if test(ix):
                cur = p
        return cur

    def reduce_extra(self, extras):
        out = set()
        for e in extras:
            out.update(e.get('ivs', ()))
        return sorted(out)

    def evidence_extra(self, reduced):
        done = {x for chunk in reduced for x in chunk}
        return {'exhaustive_subspaces': {'interval_x_direction_40x2': {'size': 80, 'visited_with_a_successful_call': len(done), 'complete': len(done) == 80}}}

    # ---------------------------------------------------------------- known-finding matchers
    @staticmethod
    def _m_accidental_reappended(v, params):
        d = v.get('detail') or {}
        if v['class'] == 'transpose-raised':
            # the letters of a note with explicit accidental, transposed without it, are unspellable -> KeyError
            return d.get('accidental_note_letters_unspellable') is True
        if not (v['class'] == 'pitch-wrong' and d.get('cell_kind') == 'note' and d.get('has_accidental') is True):
            return False
        if d.get('natural_plus_old_accidental') is not None:
            return v.get('actual') == d.get('natural_plus_old_accidental')
        # letters alone unspellable: whatever base-40 slot came out, followed by the old accidental text
        return d.get('letters_alone_unspellable') is True and isinstance(v.get('actual'), str) and v['actual'].endswith(d.get('old_accidental') or '\0')

    @staticmethod
    def _m_chord_untouched(v, params):
        d = v.get('detail') or {}
        return v['class'] == 'pitch-wrong' and d.get('cell_kind') == 'chord' and d.get('identical_to_source') is True

    @staticmethod
    def _m_non_kern_note_transposed(v, params):
        d = v.get('detail') or {}
        return (v['class'] == 'other-cell-changed' and d.get('header') in ('**root', '**mxhm') and d.get('token_class') == 'NoteRestToken'
                and d.get('only_pitch_differs') is True)

    MATCHERS = {'accidental_reappended': _m_accidental_reappended.__func__, 'chord_untouched': _m_chord_untouched.__func__,
                'non_kern_note_transposed': _m_non_kern_note_transposed.__func__}


CHECK = C15()
