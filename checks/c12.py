"""C12 - malformed tokens are isolated, reported once and preserved  (engine: sim-import, DESIGN 4.1).

System under simulation: the stateful importer (one cached spine importer per header for a whole import,
one ANTLR error listener shared by all tokens of that importer), driven through ``kernpy.loads`` and through
long-lived ``createImporter(header)`` instances.  The fault is the brief's "flipped stored byte": 1..k cells
of a well-formed document are replaced by malformed text; everything else must be as if nothing happened.

Two run modes:
  doc      reference import of the clean text, import of the damaged text, exports, then a re-import of the
           clean text in the same process (cross-import isolation)
  history  one importer instance per run is fed a seeded sequence of valid and malformed tokens in two
           different orders; every outcome must equal that of a fresh importer on that token alone
"""
from __future__ import annotations

from simkit import seeds, docgen
from simkit.ddmin import ddmin_list, greedy_replace
from simkit.eventlog import EventLog, digest_of
from simkit.snapshot import token_core, doc_snapshot, errors_snapshot

UNLEXABLE = ['€', '§', 'ß', 'µ', '¿', '\x01', '\xa0', '٤', '８', '²', '\u0301', '\u212b', '\u2126', '\u0308']          # the last three are digits only to str.isdigit()/\\d, not to the lexer
TRUNCATED = ['4', '8.', '16%', '*clef', '*M', '*M4/', '*k[f#', '*met(c', '*MM', '*xywh-1:1,2', '*>[A', '*staff', '*tb', '*rscale:']
LEADING = ['#4c', '4#c', 'q', 'L', '4L', ';']
BAD_CHORD = ['4c 4', '4c  4e', '4c 4€e']
TAIL_FIXED = ['4czz', '=1zz', '*clefG2zz', '4c##-', '4cLzz', '4rzz', '*M4/4zz', '4c 4ezz']
TRAILING = ['4c4', 'c4']
NULL_LIKE = ['..', '...', '.*', '*.', '. .', '*.*', '.. .']
# cells that the grammar accepts but whose parse-tree walk raises (a beamed rest): the failure comes from the listener, mid-chord or not
WALK_RAISES = ['8rL 8c', '8rL', '16rL 16e 16g', '4c 8rJ', '8rK 8c 8e']
FULLWIDTH = {'0': '０', '1': '１', '2': '２', '3': '３', '4': '４', '5': '５', '6': '６', '7': '７', '8': '８', '9': '９'}
# separator characters inside malformed text: (text, family)
SEPARATOR = [('4c@', 'tail'), ('a@b', 'tail'), ('4zz@', 'strict'), ('@', 'strict'), ('4c·', 'strict'), ('4·zz', 'strict'), ('·', 'strict')]

STRICT_KINDS = ('unlexable-adjacent', 'truncated', 'wrong-order-leading', 'bad-chord', 'unicode-digit')
HEADER_CATEGORY = {'**text': 'LYRICS', '**dynam': 'DYNAMICS', '**dyn': 'DYNAMICS', '**harm': 'HARMONY', '**mxhm': 'HARMONY', '**fing': 'FINGERING'}
KERN_PARSED = ('**kern', '**root')     # headers whose importer raises on malformed text

VALID_KERN_TOKENS = ['4c', '8.dd-J', '4r', '2.r', '16ee#L', '16ffJ', '4c 4e 4g', '8C 8E', '=1', '=', '==', '=2||', '=:|!', '*clefG2', '*clefF4',
                     '*M4/4', '*M3/4', '*k[f#]', '*k[]', '*met(c)', '*MM120', '*staff1', '*C:', '*a:', '.', '*', '*>A', '*tb8', '*8va', '*X8va',
                     '*Ipiano', '(4c', '4d)', '[2e', '2e]', "8g'", '8a~', '4b;', '1GG', '2AA-', '4ccc##', '8qd', '4.f', '3%2g', '*xywh-1:1,2,3,4',
                     '*ped', '*Xped', '*kcancel', '*S/sic', '=3-', '=4;', '4en', '4f#X', 'qb', '4B-T', '0C']
VALID_BY_HEADER = {
    '**text': docgen.LYRICS_ASCII + docgen.LYRICS_LATIN1 + docgen.LYRICS_WIDE + ['.', '=1', '*', '*clefG2', '='],
    '**dynam': docgen.DYNAMS + ['.', '=1', '*', '=='],
    '**dyn': docgen.DYNAMS + ['.', '=1', '*'],
    '**harm': docgen.HARMS + ['.', '=1', '*', '*M4/4'],
    '**mxhm': docgen.MXHMS + ['.', '=1', '*'],
    '**fing': docgen.FINGS + ['.', '=1', '*'],
    '**foo': docgen.OTHERS + ['.', '=1', '*'],
}


def malformed_for(rng, carrier: str, kinds=None):
    """-> (text, kind, family). ``carrier`` is the original cell text (a valid token) or a generic one."""
    # carriers whose grammar is free text (instrument names, section labels) accept any appended characters: not malformed
    if (not carrier or carrier.startswith('!') or carrier.startswith('*I') or carrier.startswith('*mI') or carrier.startswith('**')
            or carrier.startswith('*>')):
        carrier = '4c'
    kind = seeds.weighted(rng, [('unlexable-adjacent', 6), ('truncated', 3), ('wrong-order-leading', 2), ('bad-chord', 1.5),
                                ('garbage-appended', 4), ('separator', 1.5), ('wrong-order-trailing', 1), ('null-like', 1.2), ('walk-raises', 1.0),
                                ('unicode-digit', 1.2)]) if kinds is None else rng.choice(kinds)
    if kind == 'walk-raises':
        return rng.choice(WALK_RAISES), kind, 'tail'
    if kind == 'unicode-digit':
        # the only defect is a non-ASCII decimal digit where a duration digit stood (or in front of a plain note)
        ds = [i for i, ch in enumerate(carrier) if ch in FULLWIDTH]
        if ds and not carrier.startswith('*'):
            i = rng.choice(ds)
            return carrier[:i] + rng.choice([FULLWIDTH[carrier[i]], '٤']) + carrier[i + 1:], kind, 'strict'
        return rng.choice(['８D', '٤d#', '４c', '１６ee-']), kind, 'strict'
    if kind == 'null-like':
        # made of placeholder characters only, but not a placeholder: must not be mistaken for an empty cell anywhere
        return rng.choice(NULL_LIKE), kind, 'tail'
    if kind == 'unlexable-adjacent':
        u = rng.choice(UNLEXABLE)
        pos = rng.choice(['start', 'mid', 'end'])
        if carrier.startswith('*') and pos == 'mid':
            # inside a multi-character lexer keyword the parser may stop at '*' before the lexer reaches the
            # damage (that is the lexable-tail case); "adjacent" means start, end, or inside single-character lexemes
            pos = 'end'
        if pos == 'mid' and len(carrier) < 2:
            pos = 'start'
        if pos == 'start':
            return u + carrier, kind, 'strict'
        if pos == 'end':
            return carrier + u, kind, 'strict'
        p = rng.randrange(1, len(carrier))
        return carrier[:p] + u + carrier[p:], kind, 'strict'
    if kind == 'truncated':
        return rng.choice(TRUNCATED), kind, 'strict'
    if kind == 'wrong-order-leading':
        return rng.choice(LEADING), kind, 'strict'
    if kind == 'bad-chord':
        return rng.choice(BAD_CHORD), kind, 'strict'
    if kind == 'garbage-appended':
        if rng.random() < 0.5:
            return rng.choice(TAIL_FIXED), kind, 'tail'
        return carrier + rng.choice(['zz', 'z', 'zzz', 'hh']), kind, 'tail'
    if kind == 'separator':
        t, fam = rng.choice(SEPARATOR)
        return t, kind, fam
    return rng.choice(TRAILING), 'wrong-order-trailing', 'tail'


def row_columns(doc: docgen.Doc):
    """Per row: list of 'in sub-spine' flags per column (a spine that occupies more than one column)."""
    out = []
    for r in doc.rows:
        if r.kind == 'global':
            out.append([])
            continue
        cnt = {}
        for c in r.cells:
            cnt[c.spine] = cnt.get(c.spine, 0) + 1
        out.append([cnt[c.spine] > 1 for c in r.cells])
    return out


# texts imported by the re-entrant callback: (text, number of errors it must report)
NESTED_TEXTS = [
    ('**kern\t**text\n4c\tla\n4c\u00fc\tx\n4g\t.\n*-\t*-\n', 1),
    ('**kern\n*clefG2\n=1\n4e\n#4c\n8.\n4f\n*-\n', 2),
    ('**text\t**kern\t**kern\nfoo\t4c\t4e\n.\t4d\t4\u00a7\n*-\t*-\t*-\n', 1),
    ('**kern\t**dynam\n4c\tp\n4d\tf\n*-\t*-\n', 0),
]


class C12:
    PROPERTY = 'C12'
    TIERS = {
        'quick': {'runs': 6000, 'wall_cap_s': 300, 'chunk': 40, 'opt_leg_runs': 300},
        'thorough': {'runs': 130000, 'wall_cap_s': 1500, 'chunk': 50, 'opt_leg_runs': 1200},
    }
    RULE = ('75% doc runs: a docgen document (1-4 spines, <=25 rows, swarm features) with 0..4 cells replaced by malformed text '
            '(strict family: unlexable character adjacent to a token, truncated token, wrong order, bad chord; lexable-tail family: '
            'garbage appended, separator characters, trailing digits), placement biased to rows after *^ / *v, sub-spines, barline '
            'rows, adjacent cells, last row, non-kern spines, optionally with blank lines before the fault; 25% history runs: one '
            'long-lived importer of a seeded class fed <=40 valid/malformed tokens in two orders. Fault-free configuration = zero '
            'faults / only valid tokens. Non-trivial: at least one fault in a **kern/**root cell with a later cell of the same '
            'importer, or a history with an error followed by a valid token. Distinct: digest of (document shape, fault kinds and '
            'placement classes) or (importer class, token-validity sequence).')
    DISTINCT_MEASURE = 'distinct (abstract document shape, fault kinds, placement classes) / (importer class, validity sequence) digests'
    COMPONENTS = {'real': ['kernpy.loads / Importer.run', 'all spine importers', 'ANTLR lexer/parser/runtime', 'ErrorListener', 'kernpy.dumps (kern, ekern)'],
                  'stub': []}
    ASSUMPTIONS = ['the reference is kernpy itself on the undamaged text (reference path): a consistently wrong import is invisible (that is C01-C03)',
                   'strict-family texts must raise: justified from the lexer alphabet / grammar, confirmed by probe on the unchanged tree',
                   'in non-kern spines any text is legal (C18): expectation is no error and a verbatim token of that spine category',
                   'null-row suppression of the exporter is recomputed from the abstract document (rows whose exported cells are all . or *)']
    PROBES = ['fault_after_split', 'fault_in_subspine', 'fault_after_join', 'adjacent_faults', 'fault_in_non_kern', 'fault_in_last_row',
              'fault_in_bar_row', 'fault_in_interp_row', 'two_imports_one_process', 'history_err_then_valid', 'blank_line_before_fault',
              'fault_in_second_kern_spine', 'later_kern_cell_after_fault', 'dropped_row_resurrected', 'leading_blank_line', 'interrupt_delivered', 'same_malformed_text_twice_in_a_row',
              'damaged_text_loaded_from_file', 'file_import_under_non_utf8_locale', 'reentrant_import_delivered', 'measure_range_export_checked', 'strict_and_deprecated_entry_points_compared', 'long_run_of_malformed_cells_in_one_spine', 'multibyte_character_across_block_boundary']

    # ---------------------------------------------------------------- plan
    def gen_plan(self, seed, index, tier):
        st = seeds.Streams(seed, self.PROPERTY, index)
        mode = 'history' if st['env'].random() < 0.25 else 'doc'
        if mode == 'history':
            return self._gen_history(st)
        if st['burst'].random() < 0.03:         # (own stream: the other streams' draws are unchanged)
            return self._gen_burst(st['burst'])
        return self._gen_doc(st)

    def _gen_burst(self, rng):
        """A long unbroken RUN of malformed cells in one spine (26..60 in a row, no good cell of that spine between them), followed
        by valid rows: whatever an importer does after many failures, the cells after the run are judged like any others."""
        from simkit.docgen import Row, Cell, KERN
        headers = rng.choice([[KERN], [KERN, '**text'], ['**text', KERN, KERN], [KERN, KERN]])
        F = dict(docgen.DEFAULT_FEATURES, chords=False, null_rows=False, dotted=False)
        n = len(headers)
        rows = [Row('header', [Cell(h, 'header', i) for i, h in enumerate(headers)]),
                Row('interp', [Cell('*clefG2' if h == KERN else '*', 'clef' if h == KERN else 'null_interp', i) for i, h in enumerate(headers)])]

        def data_row():
            cells = []
            for i, h in enumerate(headers):
                if h == KERN:
                    if rng.random() < 0.85:
                        t, m = docgen.gen_note(rng, F)
                        cells.append(Cell(t, 'note', i, m))
                    else:
                        t, m = docgen.gen_rest(rng, F)
                        cells.append(Cell(t, 'rest', i, m))
                else:
                    cells.append(Cell(rng.choice(['la', 'do', 'x', 'amen', 'ky-']), 'text', i))
            rows.append(Row('data', cells))
        for _ in range(rng.randint(0, 3)):
            data_row()
        run_len = rng.randint(26, 60)
        start = len(rows)
        for _ in range(run_len):
            data_row()
        rows.append(Row('bar', [Cell('=2', 'bar', i, {'hidden': False}) for i in range(n)]))
        for _ in range(rng.randint(2, 6)):
            data_row()
        rows.append(Row('term', [Cell('*-', 'op', i) for i in range(n)]))
        doc = docgen.Doc(headers, rows, F)
        col = rng.choice([i for i, h in enumerate(headers) if h == KERN])
        faults = []
        for ri in range(start, start + run_len):
            text, kind, fam = malformed_for(rng, rows[ri].cells[col].text, kinds=list(STRICT_KINDS))
            faults.append({'row': ri, 'col': col, 'text': text, 'kind': kind, 'family': fam})
        return {'property': self.PROPERTY, 'mode': 'doc', 'config': 'fault_injecting', 'doc': doc.to_json(), 'eol': '\n', 'final_newline': True,
                'faults': faults, 'blank_lines': [], 'warnings': 'default', 'via': 'string', 'fs': None, 'reenter': None, 'logging': 'default',
                'entry_points': False, 'burst': run_len}

    def _gen_doc(self, st):
        drng, frng, erng = st['doc'], st['faults'], st['env']
        F = docgen.swarm_features(drng, combining_sigs=False, quote_cells=False, uls_cells=False, notelike_nonkern=False)
        doc = docgen.gen_doc(drng, F)
        fault_free = erng.random() < 0.12
        faults = []
        blank = []
        if not fault_free:
            k = seeds.weighted(frng, [(1, 55), (2, 30), (3, 10), (4, 5)])
            cells = [(ri, ci, c) for ri, ci, c in doc.data_cells()]
            sub = row_columns(doc)
            interesting = []
            for ri, ci, c in cells:
                prev_kind = doc.rows[ri - 1].kind if ri > 0 else ''
                nxt_kind = doc.rows[ri + 1].kind if ri + 1 < len(doc.rows) else ''
                if prev_kind == 'ops' or sub[ri][ci] or doc.rows[ri].kind == 'bar' or nxt_kind == 'term':
                    interesting.append((ri, ci, c))
            chosen = {}
            while len(chosen) < k and cells:
                r = frng.random()
                if chosen and r < 0.25:
                    # adjacent to an existing fault in the same row
                    ri, ci = frng.choice(sorted(chosen))
                    cand = [(ri, cj, doc.rows[ri].cells[cj]) for cj in (ci - 1, ci + 1) if 0 <= cj < len(doc.rows[ri].cells)]
                    pick = frng.choice(cand) if cand else frng.choice(cells)
                elif interesting and r < 0.6:
                    pick = frng.choice(interesting)
                else:
                    pick = frng.choice(cells)
                ri, ci, c = pick
                if (ri, ci) in chosen:
                    if len(chosen) >= len(cells):
                        break
                    continue
                text, kind, fam = malformed_for(frng, c.text)
                same_row = [f for (fr, fc), f in chosen.items() if fr == ri]
                if same_row and frng.random() < 0.45:
                    # the SAME malformed text twice in one row (two spines): still one error per cell
                    dup = frng.choice(same_row)
                    text, kind, fam = dup['text'], dup['kind'], dup['family']
                    if kind in ('unlexable-adjacent', 'unicode-digit', 'garbage-appended'):
                        # these texts were derived from the OTHER cell's own token; in this cell no claim is made that the
                        # damage is adjacent to a complete token, so the outcome is classified, not demanded
                        fam = 'tail'
                chosen[(ri, ci)] = {'row': ri, 'col': ci, 'text': text, 'kind': kind, 'family': fam}
            faults = [chosen[k2] for k2 in sorted(chosen)]
            if erng.random() < 0.12:
                first = min(f['row'] for f in faults)
                n_blank = erng.choice([1, 1, 2])
                blank = sorted(erng.randrange(0, first + 1) for _ in range(n_blank))      # 0 = the text BEGINS with a blank line
        plan = {'property': self.PROPERTY, 'mode': 'doc', 'config': 'fault_free' if fault_free else 'fault_injecting',
                'doc': doc.to_json(), 'eol': erng.choice(['\n', '\n', '\n', '\r\n']), 'final_newline': erng.random() < 0.8,
                'faults': faults, 'blank_lines': blank, 'warnings': 'error' if erng.random() < 0.08 else 'default',
                # (session 3) the damaged text reaches the importer through load() on the simulated file system in a fifth of the
                # runs: chunked reads that split multi-byte characters and CRLF pairs, EINTR, a non-UTF-8 locale (import_file names
                # its encoding, so the locale must not matter). Drawn last from the env stream: earlier draws are unchanged.
                'via': 'file' if erng.random() < 0.2 else 'string',
                'fs': {'io_seed': erng.randrange(1 << 30), 'chunking': erng.choice(['small', 'tiny', 'tiny', 'whole']),
                       'locale': erng.choice(['utf-8', 'latin-1', 'ascii', 'cp1252']), 'faults': [], 'actor': [],
                       'eintr': erng.random() < 0.4, 'pathtype': erng.choice(['str', 'Path'])},
                # re-entrancy: at a seeded line event of the damaged import a callback (signal handler, finalizer, logging hook)
                # imports ANOTHER text - damaged too - and returns; two imports are then in flight at once without any thread
                'reenter': {'k_u': erng.randrange(1 << 30), 'which': erng.randrange(len(NESTED_TEXTS))} if erng.random() < 0.15 else None,
                'logging': 'DEBUG' if erng.random() < 0.08 else 'default', 'entry_points': erng.random() < 0.2}
        if plan['via'] == 'file' and faults and erng.random() < 0.5:
            self._pad_to_block_edge(plan)
        return plan

    def _pad_to_block_edge(self, plan):
        """File mode: a reference record is put in front of the score so that a multi-byte character of a malformed cell lies
        exactly across the first I/O block boundary (byte 8192) of the stored file."""
        from simkit.docgen import Row, Cell
        doc = docgen.Doc.from_json(plan['doc'])
        doc.rows.insert(0, Row('global', [Cell('!!!OTL: x', 'global', -1)]))
        faults = [dict(f, row=f['row'] + 1) for f in plan['faults']]
        blank = [b + 1 for b in plan['blank_lines']]
        target = next((f for f in faults if any(ord(ch) > 127 for ch in f['text'])), None)
        if target is None:
            return
        _, bad, _ = self._render(doc, plan['eol'], plan['final_newline'], faults, blank)
        # byte offset of the first non-ASCII character of the target cell in the stored file
        lines = bad.split(plan['eol'])
        phys = target['row'] + sum(1 for b in blank if b <= target['row'])
        cells = lines[phys].split('\t')
        if target['col'] >= len(cells) or cells[target['col']] != target['text']:
            return
        upto = plan['eol'].join(lines[:phys]) + plan['eol'] + '\t'.join(cells[:target['col']]) + ('\t' if target['col'] else '')
        ch = next(i for i, c in enumerate(target['text']) if ord(c) > 127)
        off = len((upto + target['text'][:ch]).encode('utf-8'))
        grow = 8191 - off
        if grow < 0:
            return
        doc.rows[0].cells[0].text = '!!!OTL: x' + 'x' * grow
        plan['doc'], plan['faults'], plan['blank_lines'], plan['block_edge'] = doc.to_json(), faults, blank, True

    def _gen_history(self, st):
        rng, frng, erng = st['ops'], st['faults'], st['env']
        header = seeds.weighted(erng, [('**kern', 8), ('**root', 2), ('**text', 1), ('**dynam', 1), ('**dyn', 1), ('**harm', 1), ('**mxhm', 1),
                                       ('**fing', 1), ('**foo', 1)])
        fault_free = erng.random() < 0.12
        n = rng.randint(3, 40)
        valid_pool = VALID_KERN_TOKENS if header in KERN_PARSED else VALID_BY_HEADER[header] + VALID_KERN_TOKENS[:12]
        toks = []
        for _ in range(n):
            if not fault_free and frng.random() < 0.3:
                carrier = rng.choice(VALID_KERN_TOKENS)
                text, kind, fam = malformed_for(frng, carrier)
                toks.append({'t': text, 'bad': True, 'kind': kind, 'family': fam})
                if frng.random() < 0.35:
                    # the import of this token is cut short at a seeded line event (Ctrl-C, failing allocation); the caller survives it
                    toks[-1]['interrupt'] = {'k_u': frng.randrange(1 << 30), 'payload': frng.choice(['SimInterrupt', 'SimInterrupt', 'MemoryError'])}
            elif not fault_free and frng.random() < 0.06:
                toks.append({'t': rng.choice(valid_pool), 'bad': False, 'interrupt': {'k_u': frng.randrange(1 << 30), 'payload': frng.choice(['SimInterrupt', 'MemoryError'])}})
            else:
                toks.append({'t': rng.choice(valid_pool), 'bad': False})
        order2 = list(range(n))
        rng.shuffle(order2)
        return {'property': self.PROPERTY, 'mode': 'history', 'config': 'fault_free' if fault_free else 'fault_injecting',
                'header': header, 'tokens': toks, 'order2': order2, 'warnings': 'error' if erng.random() < 0.08 else 'default',
                'logging': 'DEBUG' if erng.random() < 0.08 else 'default'}

    def summarize(self, plan):
        if plan['mode'] == 'history':
            return {'mode': 'history', 'header': plan['header'], 'tokens': [t['t'] for t in plan['tokens']], 'order2': plan['order2']}
        doc = docgen.Doc.from_json(plan['doc'])
        return {'mode': 'doc', 'config': plan['config'], 'text': doc.render(), 'faults': plan['faults'], 'blank_lines': plan['blank_lines'],
                'eol': plan['eol']}

    # ---------------------------------------------------------------- execution
    def execute(self, plan):
        import warnings
        with warnings.catch_warnings():
            # interpreter environment knob: some runs treat every warning as an error (python -W error)
            warnings.simplefilter('error' if plan.get('warnings') == 'error' else 'ignore')
            from simkit.envknobs import debug_logging
            with debug_logging(plan.get('logging') == 'DEBUG'):     # the application has switched logging to DEBUG
                if plan['mode'] == 'history':
                    return self._exec_history(plan)
                return self._exec_doc(plan)

    @staticmethod
    def _render(doc, eol, final_newline, faults, blank_lines):
        """-> (clean text, damaged text, {row: physical 1-based line number})."""
        fmap = {(f['row'], f['col']): f['text'] for f in faults}
        clean, bad, line_of = [], [], {}
        phys = 0
        for ri, r in enumerate(doc.rows):
            for _ in range(blank_lines.count(ri)):
                bad.append('')
                phys += 1
            phys += 1
            line_of[ri] = phys
            clean.append(r.text())
            bad.append('\t'.join(fmap.get((ri, ci), c.text) for ci, c in enumerate(r.cells)))
        tail = eol if final_newline else ''
        return eol.join(clean) + tail, eol.join(bad) + tail, line_of

    def _exec_doc(self, plan):
        import kernpy as kp
        from kernpy.core import createImporter
        log = EventLog()
        viol, faults_fired, probes = [], {}, {}

        def bump(d, k, n=1):
            d[k] = d.get(k, 0) + n

        def add_v(cls, sig, expected, actual, **detail):
            viol.append({'class': cls, 'signature': sig, 'seq': log.seq, 'expected': expected, 'actual': actual, 'detail': detail})

        doc = docgen.Doc.from_json(plan['doc'])
        if not doc.consistent():
            from simkit.runner import HarnessError
            raise HarnessError('plan document: the abstract annotation does not match its own spine operators')
        faults = plan['faults']
        blank = plan.get('blank_lines') or []
        clean_text, bad_text, line_of = self._render(doc, plan['eol'], plan['final_newline'], faults, blank)
        headers = doc.headers
        sub = row_columns(doc)

        # ---- reference run (no damage)
        try:
            ref_doc, ref_err = kp.loads(clean_text)
        except Exception as e:
            log.emit('client', 'loads-clean', None, 'raised ' + type(e).__name__)
            add_v('import-raised', 'import-raised/clean', 'a document', type(e).__name__)
            return self._result(plan, log, viol, faults_fired, probes, doc, False)
        log.emit('client', 'loads-clean', digest_of(clean_text), errors_snapshot(ref_err))
        if ref_err:
            add_v('spurious-error', 'spurious-error/clean-doc', [], errors_snapshot(ref_err)[:6], n=len(ref_err))
        ref_snap = doc_snapshot(ref_doc)
        ref_kern = self._safe(lambda: kp.dumps(ref_doc))
        ref_ekern = self._safe(lambda: kp.dumps(ref_doc, encoding=kp.Encoding.eKern))
        log.emit('client', 'dumps-clean', None, [digest_of(ref_kern), digest_of(ref_ekern)])

        masked = set()
        if faults:
            # ---- damaged run
            for f in faults:
                bump(faults_fired, f['kind'])
            try:
                if plan.get('via') == 'file':
                    bad_doc, bad_err = self._load_via_file(kp, plan, bad_text, probes, bump, faults_fired)
                elif plan.get('reenter'):
                    bad_doc, bad_err = self._loads_with_nested_import(kp, plan, bad_text, add_v, probes, bump, faults_fired, log)
                else:
                    bad_doc, bad_err = kp.loads(bad_text)
            except Exception as e:
                log.emit('fault', 'loads-damaged', [[f['row'], f['col'], f['text']] for f in faults], 'raised ' + type(e).__name__)
                add_v('import-raised', 'import-raised/damaged', 'a document and an error list', type(e).__name__,
                      message=str(e)[:200], kinds=[f['kind'] for f in faults])
                bad_doc = None
            if bad_doc is not None:
                log.emit('fault', 'loads-damaged', [[f['row'], f['col'], f['text']] for f in faults], errors_snapshot(bad_err))
                self._probes_for(doc, faults, sub, blank, probes, bump)
                if plan.get('burst'):
                    bump(probes, 'long_run_of_malformed_cells_in_one_spine')
                masked = self._check_damaged(kp, createImporter, doc, headers, faults, line_of, blank, ref_doc, bad_doc, bad_err, add_v, probes, bump, log)
                if masked is not None:
                    self._check_exports(kp, doc, headers, faults, ref_kern, ref_ekern, ref_doc, bad_doc, masked, add_v, probes, bump, log)

        # ---- the other public entry points on the same damaged text: strict mode raises exactly when errors were reported, the
        #      deprecated create() reports the same errors and builds the same document
        if faults and plan.get('entry_points') and 'bad_doc' in locals() and bad_doc is not None and plan.get('via') != 'file':
            import warnings as _w
            bump(probes, 'strict_and_deprecated_entry_points_compared')
            # (a nested import consumed node ids in the middle of the damaged import: relative ids then differ legitimately)
            same_ids = not plan.get('reenter')
            try:
                sd, se = kp.loads(bad_text, raise_on_errors=True)
                strict = 'returned'
            except Exception as e:
                strict = 'raised'
            if (strict == 'raised') != bool(bad_err):
                add_v('entry-points-disagree', 'entry-points-disagree/strict', 'raised' if bad_err else 'returned', strict, errors=len(bad_err))
            elif strict == 'returned' and same_ids and doc_snapshot(sd) != doc_snapshot(bad_doc):
                add_v('entry-points-disagree', 'entry-points-disagree/strict-document', 'same document', 'differs')
            try:
                with _w.catch_warnings():
                    _w.simplefilter('ignore')
                    cd, ce = kp.create(bad_text)
                if errors_snapshot(ce) != errors_snapshot(bad_err) or (same_ids and doc_snapshot(cd) != doc_snapshot(bad_doc)):
                    add_v('entry-points-disagree', 'entry-points-disagree/create', errors_snapshot(bad_err)[:4], errors_snapshot(ce)[:4])
            except Exception as e:
                add_v('entry-points-disagree', 'entry-points-disagree/create-raised', 'a document and an error list', type(e).__name__)
            log.emit('client', 'entry-points', None, strict)

        # ---- cross-import: the clean text again, in the same process, after the damaged import
        try:
            again_doc, again_err = kp.loads(clean_text)
            log.emit('client', 'loads-clean-again', None, errors_snapshot(again_err))
            bump(probes, 'two_imports_one_process')
            if errors_snapshot(again_err) != errors_snapshot(ref_err):
                add_v('cross-import-leak', 'cross-import-leak/errors', errors_snapshot(ref_err)[:4], errors_snapshot(again_err)[:4])
            if doc_snapshot(again_doc) != ref_snap:
                add_v('cross-import-leak', 'cross-import-leak/tokens', 'snapshot of the first clean import', 'differs')
        except Exception as e:
            add_v('import-raised', 'import-raised/clean-again', 'a document', type(e).__name__)

        nontrivial = any(headers[doc.rows[f['row']].cells[f['col']].spine] in KERN_PARSED for f in faults) and probes.get('later_kern_cell_after_fault', 0) > 0
        return self._result(plan, log, viol, faults_fired, probes, doc, nontrivial)

    @staticmethod
    def _loads_with_nested_import(kp, plan, text, add_v, probes, bump, faults_fired, log):
        """kp.loads(text) during which, at a seeded kernpy line event, a callback imports another damaged text."""
        from simkit import interrupt as intr
        from simkit.runner import kernpy_src
        ntext, nerrs = NESTED_TEXTS[plan['reenter']['which'] % len(NESTED_TEXTS)]

        def nested():
            d, e = kp.loads(ntext)
            return [errors_snapshot(e), kp.dumps(d, encoding=kp.Encoding.eKern)]
        alone = nested()
        if len(alone[0]) != nerrs:
            add_v('nested-import-wrong', 'nested-import-wrong/alone', nerrs, len(alone[0]))
        inj = intr.injector(kernpy_src())
        total = inj.count_events(lambda: kp.loads(text))
        if total <= 0:
            return kp.loads(text)
        got = {}

        def cb():
            try:
                got['v'] = nested()
            except Exception as e:          # the nested import must not raise either
                got['v'] = 'raised ' + type(e).__name__
        delivered, out = inj.run_with_callback(lambda: kp.loads(text), 1 + plan['reenter']['k_u'] % total, cb)
        bump(faults_fired, 'reentrant_import')
        log.emit('fault', 'reentrant-import', plan['reenter']['which'], [delivered, out[0]])
        if delivered:
            bump(probes, 'reentrant_import_delivered')
            if got.get('v') != alone:
                add_v('reentrancy', 'reentrancy/nested-import-differs', alone, got.get('v'))
        if out[0] != 'ok':
            raise out[1]
        return out[1]

    @staticmethod
    def _load_via_file(kp, plan, text, probes, bump, faults_fired):
        """The damaged text stored as a file of the simulated OS and imported with kp.load (Importer.import_file)."""
        import pathlib
        from simkit.simfs import SimFS, PREFIX
        from simkit.runner import kernpy_src, HarnessError
        fsplan = dict(plan['fs'])
        path = PREFIX + '/in/score.krn'
        if fsplan.get('eintr'):
            fsplan['faults'] = [{'kind': 'eintr_read', 'at': {'call': 1 + fsplan['io_seed'] % 3}, 'path': path}]
        fs = SimFS(fsplan, None)
        fs.guard_root = kernpy_src() + '/kernpy'
        fs.mkdirs(PREFIX + '/in')
        fs.cwd = PREFIX
        fs.put(path, text.encode('utf-8'))
        bump(probes, 'damaged_text_loaded_from_file')
        if plan.get('block_edge'):
            data = text.encode('utf-8')
            if len(data) > 8192 and (data[8192] & 0xC0) == 0x80:
                bump(probes, 'multibyte_character_across_block_boundary')
        if fsplan['locale'] != 'utf-8':
            bump(probes, 'file_import_under_non_utf8_locale')
        with fs.mount():
            res = kp.load(pathlib.Path(path) if fsplan.get('pathtype') == 'Path' else path)
        for kf, vf in fs.stats.items():
            if kf.startswith('fault_'):
                bump(faults_fired, kf, vf)
        if fs.escapes:
            raise HarnessError('closure guard: real-path I/O from kernpy during a simulated run: ' + '; '.join(fs.escapes[:3]))
        return res

    @staticmethod
    def _safe(fn):
        try:
            return fn()
        except Exception as e:
            return 'raised ' + type(e).__name__

    def _probes_for(self, doc, faults, sub, blank, probes, bump):
        rows = doc.rows
        fset = {(f['row'], f['col']) for f in faults}
        kern_cols_seen = set()
        for f in faults:
            ri, ci = f['row'], f['col']
            r = rows[ri]
            hdr = doc.headers[r.cells[ci].spine]
            prev = rows[ri - 1] if ri > 0 else None
            if prev is not None and prev.kind == 'ops':
                ops = [c.text for c in prev.cells]
                if '*^' in ops:
                    bump(probes, 'fault_after_split')
                if '*v' in ops:
                    bump(probes, 'fault_after_join')
            if sub[ri][ci]:
                bump(probes, 'fault_in_subspine')
            if (ri, ci + 1) in fset:
                bump(probes, 'adjacent_faults')
            if sum(1 for g in faults if g['row'] == ri and g['text'] == f['text']) > 1:
                bump(probes, 'same_malformed_text_twice_in_a_row')
            if hdr not in KERN_PARSED:
                bump(probes, 'fault_in_non_kern')
            if ri + 1 < len(rows) and rows[ri + 1].kind == 'term':
                bump(probes, 'fault_in_last_row')
            if r.kind == 'bar':
                bump(probes, 'fault_in_bar_row')
            if r.kind == 'interp':
                bump(probes, 'fault_in_interp_row')
            if hdr == '**kern' and r.cells[ci].spine != doc.headers.index('**kern'):
                bump(probes, 'fault_in_second_kern_spine')
            if blank and any(b <= ri for b in blank):
                bump(probes, 'blank_line_before_fault')
            if blank and 0 in blank:
                bump(probes, 'leading_blank_line')
            if hdr in KERN_PARSED:
                # is there a later cell parsed by the same cached importer (same header text)?
                later = False
                for rj in range(ri, len(rows)):
                    if rows[rj].kind in ('global', 'header', 'ops', 'term', 'fcomment'):
                        continue
                    for cj, c in enumerate(rows[rj].cells):
                        if (rj, cj) > (ri, ci) and doc.headers[c.spine] == hdr and (rj, cj) not in fset:
                            later = True
                if later:
                    bump(probes, 'later_kern_cell_after_fault')

    def _check_damaged(self, kp, createImporter, doc, headers, faults, line_of, blank, ref_doc, bad_doc, bad_err, add_v, probes, bump, log):
        """Oracles (b) and (c). Returns the set of (row, col) cells whose shortening is already reported."""
        masked = set()
        fmap = {(f['row'], f['col']): f for f in faults}
        # --- (c) grid and untouched tokens
        ref_st, bad_st = ref_doc.tree.stages, bad_doc.tree.stages
        if [len(s) for s in ref_st] != [len(s) for s in bad_st]:
            add_v('grid-changed', 'grid-changed', [len(s) for s in ref_st], [len(s) for s in bad_st])
            return None
        expected_errors = []     # (line, encoding)
        blank_before = lambda ri: bool(blank) and any(b <= ri for b in blank)
        for ri, r in enumerate(doc.rows):
            st_ref, st_bad = ref_st[ri + 1], bad_st[ri + 1]
            if r.kind == 'global':
                for a, b in zip(st_ref, st_bad):
                    if token_core(a.token) != token_core(b.token):
                        add_v('other-token-changed', 'other-token-changed/global', token_core(a.token), token_core(b.token), row=ri)
                continue
            for ci, c in enumerate(r.cells):
                tr, tb = token_core(st_ref[ci].token), token_core(st_bad[ci].token)
                f = fmap.get((ri, ci))
                if f is None:
                    if tr != tb:
                        is_err = isinstance(tb, dict) and tb.get('__class__') == 'ErrorToken'
                        after = any((fr, fc) < (ri, ci) for (fr, fc) in fmap)
                        add_v('other-token-changed',
                              'other-token-changed/' + ('became-error' if is_err else 'altered') + ('/after-fault' if after else '/before-fault'),
                              tr, tb, row=ri, col=ci, cell=c.text, header=headers[c.spine])
                    continue
                hdr = headers[c.spine]
                text = f['text']
                is_err = isinstance(tb, dict) and tb.get('__class__') == 'ErrorToken'
                if hdr in KERN_PARSED:
                    if is_err:
                        expected_errors.append((line_of[ri], text))
                        if tb.get('encoding') != text:
                            add_v('error-token-altered', 'error-token-altered', text, tb.get('encoding'), row=ri, col=ci)
                        # the token that sits in the tree is the reported one: same line, ERROR category, visible
                        want_attrs = {'category': 'TokenCategory.ERROR', 'hidden': False, 'line': line_of[ri]}
                        got_attrs = {k: tb.get(k) for k in want_attrs}
                        if got_attrs != want_attrs and not (blank and got_attrs['line'] != want_attrs['line']):
                            add_v('error-token-altered', 'error-token-altered/attributes', want_attrs, got_attrs, row=ri, col=ci, cell=text)
                    elif f['family'] == 'strict':
                        add_v('error-not-reported', 'error-not-reported/' + f['kind'], {'error for': text}, tb, row=ri, col=ci, header=hdr, kind=f['kind'])
                        masked.add((ri, ci))
                    else:
                        self._classify_tail(createImporter, hdr, f, tb, ri, ci, add_v, masked)
                else:
                    cat = HEADER_CATEGORY.get(hdr, 'OTHER')
                    verbatim = {'__class__': 'SimpleToken', 'encoding': text, 'category': 'TokenCategory.' + cat, 'hidden': False}
                    if is_err:
                        add_v('spurious-error', 'spurious-error/non-kern-spine', verbatim, tb, row=ri, col=ci, header=hdr)
                        expected_errors.append((line_of[ri], text))
                    elif not (isinstance(tb, dict) and tb.get('encoding') == text and tb.get('category') == verbatim['category'] and not tb.get('hidden')):
                        # (class names are not compared: a dedicated LyricsToken subclass would be a legitimate refactor)
                        self._classify_tail(createImporter, hdr, f, tb, ri, ci, add_v, masked, verbatim=verbatim)
        # --- (b) the error list
        got = [(e.line, e.encoding) for e in bad_err]
        exp = sorted(expected_errors)
        if sorted(got) != exp:
            exp_c, got_c = list(exp), list(got)
            for g in list(got_c):
                if g in exp_c:
                    exp_c.remove(g)
                    got_c.remove(g)
            # remaining: exp_c were not reported as such, got_c are unexpected
            enc_exp = {}
            for ln, en in exp_c:
                enc_exp.setdefault(en, []).append(ln)
            for ln, en in got_c:
                if en in enc_exp and enc_exp[en]:
                    want = enc_exp[en].pop(0)
                    add_v('wrong-line', 'wrong-line' + ('/blank-line-before' if blank else ''), want, ln, encoding=en, blank_lines=len(blank))
                elif (ln, en) in exp:
                    add_v('error-duplicated', 'error-duplicated', 1, got.count((ln, en)), encoding=en, line=ln)
                else:
                    add_v('spurious-error', 'spurious-error/in-error-list', 'no error for this cell', [ln, en])
            for en, lns in enc_exp.items():
                for ln in lns:
                    add_v('error-missing-from-list', 'error-missing-from-list', [ln, en], 'absent')
        return masked

    def _classify_tail(self, createImporter, hdr, f, tb, ri, ci, add_v, masked, verbatim=None):
        """The damaged cell produced a normal token. Is it exactly the standalone parse of a proper prefix?"""
        text = f['text']

        def nobox(t):
            # a page's bounding box object is shared with the first *xywh token of that page and grows with later ones,
            # so inside a document that field is not a function of the cell alone
            return {k: v for k, v in t.items() if k != 'bounding_box'} if isinstance(t, dict) else t

        if verbatim is None and isinstance(tb, dict) and tb.get('encoding') == text and f['family'] == 'tail':
            # the whole cell was consumed as one valid token: the injected text was not malformed after all
            # (no claim is made that lexable-tail texts must be rejected; strict-family texts never get here)
            return
        for n in range(len(text) - 1, 0, -1):
            p = text[:n]
            try:
                tp = token_core(createImporter(hdr).import_token(p))
            except Exception:
                continue
            if nobox(tp) == nobox(tb):
                add_v('cell-shortened', 'cell-shortened/prefix-accepted', {'error for, or verbatim': text}, tb,
                      row=ri, col=ci, header=hdr, family=f['family'], kind=f['kind'], cell=text, prefix=p, exact_prefix_parse=True)
                masked.add((ri, ci))
                return
        add_v('cell-altered', 'cell-altered/' + f['kind'], verbatim or {'error for': text}, tb, row=ri, col=ci, header=hdr, family=f['family'], cell=text)
        masked.add((ri, ci))

    def _check_exports(self, kp, doc, headers, faults, ref_kern, ref_ekern, ref_doc, bad_doc, masked, add_v, probes, bump, log):
        """Oracle (d): exports equal the reference export with exactly the corrupted cells replaced by the injected text."""
        fmap = {(f['row'], f['col']): f for f in faults}

        def tok_nullish(tok):
            return bool(getattr(tok, 'hidden', False)) or tok.encoding in ('.', '*', '')

        def nullish_ref(ri, ci):
            # does this cell of the UNDAMAGED import export as a placeholder? (hidden tokens and null tokens do)
            return tok_nullish(ref_doc.tree.stages[ri + 1][ci].token)

        plan_rows = []    # (row index, exported column indices, kept_in_reference)
        for ri, r in enumerate(doc.rows):
            if r.kind == 'global':
                plan_rows.append((ri, None, False))     # global comments are not part of the export (C03)
                continue
            cols = [ci for ci, c in enumerate(r.cells) if headers[c.spine] in docgen.EXPORTED_HEADERS]
            kept = bool(cols) and not all(nullish_ref(ri, ci) for ci in cols)
            plan_rows.append((ri, cols, kept))
        for enc_name, ref_text, kwargs in (('kern', ref_kern, {}), ('ekern', ref_ekern, {'encoding': kp.Encoding.eKern})):
            if not isinstance(ref_text, str) or ref_text.startswith('raised '):
                bump(probes, 'export_reference_unavailable')
                continue
            ref_lines = ref_text.split('\n')
            if ref_lines and ref_lines[-1] == '':
                ref_lines.pop()
            if sum(1 for _, _, k in plan_rows if k) != len(ref_lines):
                bump(probes, 'export_alignment_failed')
                continue
            try:
                got_text = kp.dumps(bad_doc, **kwargs)
            except Exception as e:
                log.emit('client', 'dumps-damaged:' + enc_name, None, 'raised ' + type(e).__name__)
                add_v('export-raised', 'export-raised/' + enc_name, 'export text', type(e).__name__)
                continue
            log.emit('client', 'dumps-damaged:' + enc_name, None, digest_of(got_text))
            expected = []   # (row index, [cells], {position: fault})
            it = iter(ref_lines)
            for ri, cols, kept in plan_rows:
                line = next(it) if kept else None
                if cols is None:
                    continue
                fpos = {pos: fmap[(ri, ci)] for pos, ci in enumerate(cols) if (ri, ci) in fmap}
                if kept:
                    cells = line.split('\t')
                    if len(cells) != len(cols):
                        bump(probes, 'export_alignment_failed')
                        expected = None
                        break
                else:
                    cells = ['*' if doc.rows[ri].kind == 'interp' else '.' for ci in cols]   # placeholders of a dropped row
                if not fpos:
                    if kept:
                        expected.append((ri, cells, fpos))
                    continue
                # is the row still exported?  a cell already reported as shortened exports whatever its (prefix) token is,
                # which may be a placeholder; every other malformed cell is not null; untouched cells are as in the reference
                kept_now = False
                for pos, ci in enumerate(cols):
                    if pos in fpos:
                        if (ri, ci) in masked:
                            if not tok_nullish(bad_doc.tree.stages[ri + 1][ci].token):
                                kept_now = True
                        else:
                            kept_now = True
                    elif not nullish_ref(ri, ci):
                        kept_now = True
                if not kept_now:
                    continue
                if not kept:
                    bump(probes, 'dropped_row_resurrected')
                for pos, f in fpos.items():
                    cells[pos] = f['text']
                expected.append((ri, cells, fpos))
            if expected is None:
                continue
            got_lines = got_text.split('\n')
            if got_lines and got_lines[-1] == '':
                got_lines.pop()
            if len(got_lines) != len(expected) and enc_name == 'kern':
                # a plain encoding strips the two separator characters from every cell; a malformed cell that consists
                # of nothing else becomes empty, is written as a placeholder, and an all-placeholder row is dropped.
                # Report that as the non-verbatim export of that cell (same defect), not as an unexplained grid change.
                def strip(t):
                    return t.replace('@', '').replace('·', '')
                reduced = []
                for (ri, cells, fpos) in expected:
                    emptied = [pos for pos, f in fpos.items() if strip(f['text']) == '']
                    # a cell already reported as shortened exports whatever its prefix token is, possibly a placeholder
                    masked_null = [pos for pos in fpos if (ri, plan_rows[ri][1][pos]) in masked
                                   and tok_nullish(bad_doc.tree.stages[ri + 1][plan_rows[ri][1][pos]].token)]
                    rest_null = all((c in ('.', '*', '')) for pos, c in enumerate(cells) if pos not in emptied and pos not in masked_null)
                    if emptied and rest_null:
                        for pos in emptied:
                            ci = plan_rows[ri][1][pos]
                            if (ri, ci) not in masked:
                                add_v('export-not-verbatim', 'export-not-verbatim/kern', fpos[pos]['text'], '', row=ri, col=ci,
                                      injected=fpos[pos]['text'], exported='', encoding='kern', kind=fpos[pos]['kind'], row_dropped=True)
                        continue
                    reduced.append((ri, cells, fpos))
                if len(reduced) == len(got_lines):
                    expected = reduced
            if len(got_lines) != len(expected):
                add_v('export-grid-changed', 'export-grid-changed/' + enc_name, len(expected), len(got_lines))
                continue
            for (ri, cells, fpos), gl in zip(expected, got_lines):
                gcells = gl.split('\t')
                if len(gcells) != len(cells):
                    add_v('export-grid-changed', 'export-grid-changed/' + enc_name, cells, gcells, row=ri)
                    continue
                cols = plan_rows[ri][1]
                for pos, (want, got) in enumerate(zip(cells, gcells)):
                    if want == got:
                        continue
                    if pos in fpos:
                        ci = cols[pos]
                        if (ri, ci) in masked:
                            continue   # already reported as shortened / not reported; the export just shows the same token
                        add_v('export-not-verbatim', 'export-not-verbatim/' + enc_name, want, got, row=ri, col=ci, injected=want, exported=got,
                              encoding=enc_name, kind=fpos[pos]['kind'])
                    else:
                        add_v('other-cell-changed-in-export', 'other-cell-changed-in-export/' + enc_name, want, got, row=ri, pos=pos)
            if enc_name == 'ekern':
                self._check_measure_range(kp, doc, faults, ref_doc, bad_doc, ref_lines, plan_rows, expected, masked, add_v, probes, bump, log)

    @staticmethod
    def _is_subsequence(needle, hay):
        it = iter(hay)
        for x in needle:
            for y in it:
                if x == y:
                    break
            else:
                return x
        return None

    def _check_measure_range(self, kp, doc, faults, ref_doc, bad_doc, ref_lines, plan_rows, expected, masked, add_v, probes, bump, log):
        """The export BY MEASURES of the damaged document, first measure to last: every row from the (undamaged) first measure on
        is still there, malformed cells verbatim in place. Calibrated on the undamaged document first (what is demanded of the
        damaged import is only what the clean import of the same score satisfies); applied only when all the damage is in data rows."""
        if any(doc.rows[f['row']].kind != 'data' for f in faults):
            # a damaged barline changes the measure structure itself; a damaged interpretation changes the signature context that
            # an excerpt re-creates in its head (C08's subject, not C12's): only damage in DATA rows is judged here
            return
        ms_ref = list(getattr(ref_doc, 'measure_start_tree_stages', []) or [])
        ms_bad = list(getattr(bad_doc, 'measure_start_tree_stages', []) or [])
        if not ms_ref or not ms_bad:
            return
        first_row = ms_ref[0] - 1           # tree stage s holds text row s - 1
        enc = kp.Encoding.eKern

        def lines_of(text):
            ls = text.split('\n')
            return ls[:-1] if ls and ls[-1] == '' else ls
        try:
            range_ref = lines_of(kp.dumps(ref_doc, encoding=enc, from_measure=1, to_measure=len(ms_ref)))
        except Exception:
            return
        kept_rows = [ri for ri, cols, kept in plan_rows if kept]
        ref_tail = [ln for ri, ln in zip(kept_rows, ref_lines) if ri >= first_row]
        if self._is_subsequence(ref_tail, range_ref) is not None:
            bump(probes, 'measure_range_not_calibrated')
            return
        try:
            range_bad = lines_of(kp.dumps(bad_doc, encoding=enc, from_measure=1, to_measure=len(ms_bad)))
        except Exception:
            # the excerpt's head re-creates the signature context by scanning each spine down to its first note; an error token
            # where a note was lets that scan run on (Exporter.is_signature_cancelled) and the excerpt may raise 'Node signature
            # mismatch'. That is the excerpt machinery of C08 (whose remaining classes are tracked as findings by its own text),
            # and C12 does not quantify over export options: counted, not judged (DESIGN 8.11)
            bump(probes, 'measure_range_export_raised_on_damaged')
            return
        tail = []
        for ri, cells, fpos in expected:
            if ri < first_row:
                continue
            cols = plan_rows[ri][1]
            if any((ri, cols[pos]) in masked for pos in fpos):
                continue            # a cell already reported (shortened / altered): its row is compared by the full export only
            tail.append('\t'.join(cells))
        log.emit('client', 'dumps-damaged:measure-range', [len(ms_ref), len(ms_bad)], digest_of(range_bad))
        missing = self._is_subsequence(tail, range_bad)
        if missing is not None:
            add_v('export-row-missing', 'export-row-missing/measure-range', missing, range_bad[:12], first_measure_row=first_row,
                  measures=[len(ms_ref), len(ms_bad)])
        else:
            bump(probes, 'measure_range_export_checked')

    def _exec_history(self, plan):
        from kernpy.core import createImporter
        log = EventLog()
        viol, faults_fired, probes = [], {}, {}
        header = plan['header']
        toks = plan['tokens']

        def outcome(imp, t):
            try:
                return token_core(imp.import_token(t))
            except Exception as e:
                return 'raised'

        fresh = {}
        for t in toks:
            if t['t'] not in fresh:
                fresh[t['t']] = outcome(createImporter(header), t['t'])
        for t in toks:
            if t.get('bad'):
                faults_fired[t['kind']] = faults_fired.get(t['kind'], 0) + 1
        orders = [list(range(len(toks))), [i for i in plan['order2'] if i < len(toks)]]
        for oi, order in enumerate(orders):
            imp = createImporter(header)
            raised_before = False
            for pos, i in enumerate(order):
                t = toks[i]['t']
                if oi == 0 and 'interrupt' in toks[i]:
                    from simkit import interrupt as intr
                    from simkit.runner import kernpy_src
                    inj = intr.injector(kernpy_src())
                    total = inj.count_events(lambda: outcome(createImporter(header), t))
                    if total > 0:
                        delivered, out = inj.run(lambda: imp.import_token(t), 1 + toks[i]['interrupt']['k_u'] % total, toks[i]['interrupt']['payload'])
                        log.emit('fault', 'interrupt-import_token', [t, toks[i]['interrupt']['payload']], None)
                        faults_fired['interrupt_' + toks[i]['interrupt']['payload']] = faults_fired.get('interrupt_' + toks[i]['interrupt']['payload'], 0) + 1
                        if delivered:
                            probes['interrupt_delivered'] = probes.get('interrupt_delivered', 0) + 1
                            raised_before = True       # whatever it left behind, later tokens must not see it
                        continue
                got = outcome(imp, t)
                log.emit('client', f'import_token[{oi}]', t, got)
                if got != fresh[t]:
                    viol.append({'class': 'history-dependent',
                                 'signature': f'history-dependent/{header}/' + ('after-error' if raised_before else 'no-error-before'),
                                 'seq': log.seq, 'expected': fresh[t], 'actual': got,
                                 'detail': {'token': t, 'order': oi, 'position': pos, 'header': header}})
                if got == 'raised':
                    raised_before = True
                elif raised_before:
                    probes['history_err_then_valid'] = probes.get('history_err_then_valid', 0) + 1
            # strict-family texts must raise in a kern-parsed importer, tail-family ones are classified in doc mode only
        if header in KERN_PARSED:
            for t in toks:
                if t.get('bad') and t.get('family') == 'strict' and fresh[t['t']] != 'raised':
                    viol.append({'class': 'error-not-reported', 'signature': 'error-not-reported/' + t['kind'], 'seq': log.seq,
                                 'expected': 'raised', 'actual': fresh[t['t']], 'detail': {'token': t['t'], 'header': header, 'kind': t['kind']}})
        shape = digest_of([header, [bool(t.get('bad')) for t in toks]])
        nontrivial = probes.get('history_err_then_valid', 0) > 0
        return {'digest': log.digest(), 'events': log.seq, 'faults': faults_fired, 'probes': probes, 'shape': shape,
                'nontrivial': nontrivial, 'config': plan['config'], 'hash_sensitive': any('interrupt' in t for t in toks), 'violations': viol, 'extra': {}}

    def _result(self, plan, log, viol, faults_fired, probes, doc, nontrivial):
        placement = sorted((f['kind'], doc.rows[f['row']].kind) for f in plan['faults'])
        shape = digest_of([doc.shape(), placement, bool(plan.get('blank_lines'))])
        return {'digest': log.digest(), 'events': log.seq, 'faults': faults_fired, 'probes': probes, 'shape': shape,
                'nontrivial': nontrivial, 'config': plan['config'], 'violations': viol, 'extra': {},
                'hash_sensitive': bool(plan.get('reenter')) and plan.get('via') != 'file' and bool(plan['faults'])}

    # ---------------------------------------------------------------- minimisation
    def shrink(self, plan, still_fails, budget):
        if plan['mode'] == 'history':
            def with_toks(toks):
                p = dict(plan)
                p['tokens'] = toks
                p['order2'] = list(range(len(toks)))[::-1]
                return p
            # keep order2 semantic simple while shrinking: first try with the reversed order
            toks = ddmin_list(plan['tokens'], lambda ts: still_fails(with_toks(ts)), budget, min_len=1)
            cand = with_toks(toks)
            return cand if still_fails(cand) else plan
        cur = dict(plan)

        def attempt(p):
            nonlocal cur
            if still_fails(p):
                cur = p
                return True
            return False

        # 1. fewer faults
        if len(cur['faults']) > 1:
            fl = ddmin_list(cur['faults'], lambda fs: still_fails(dict(cur, faults=fs)), budget, min_len=0)
            attempt(dict(cur, faults=fl))
        # 2. simplest environment
        attempt(dict(cur, eol='\n', final_newline=True))
        if cur.get('blank_lines'):
            attempt(dict(cur, blank_lines=[]))
        # 3. drop rows (keep header row, term row and rows carrying faults); faults are re-indexed
        doc = cur['doc']
        keep_idx = list(range(len(doc['rows'])))

        def build(idx):
            idx = sorted(idx)
            remap = {old: new for new, old in enumerate(idx)}
            frows = {f['row'] for f in cur['faults']}
            if not frows <= set(idx):
                return None
            nd = dict(doc, rows=[doc['rows'][i] for i in idx])
            nf = [dict(f, row=remap[f['row']]) for f in cur['faults']]
            nb = [remap[min((i for i in idx if i >= b), default=idx[-1])] for b in cur.get('blank_lines', [])]
            return dict(cur, doc=nd, faults=nf, blank_lines=sorted(nb))

        def test_rows(idx):
            p = build(idx)
            if p is None:
                return False
            # the candidate must still be a well-formed document: its clean text imports without error
            if not self._imports_clean(p):
                return False
            return still_fails(p)

        idx = ddmin_list(keep_idx, test_rows, budget, min_len=2)
        p = build(idx)
        if p is not None and self._imports_clean(p) and still_fails(p):
            cur = p
        return cur

    def _imports_clean(self, plan):
        import kernpy as kp
        try:
            doc = docgen.Doc.from_json(plan['doc'])
            if not doc.consistent():
                return False
            text, _, _ = self._render(doc, plan['eol'], plan['final_newline'], [], [])
            d, e = kp.loads(text)
            if not plan['faults']:
                return True
            return len(e) == 0
        except Exception:
            return False

    # ---------------------------------------------------------------- known-finding matchers
    @staticmethod
    def _m_prefix_accepted(v, params):
        d = v.get('detail') or {}
        return v['class'] == 'cell-shortened' and d.get('family') == 'tail' and d.get('exact_prefix_parse') is True

    @staticmethod
    def _m_separator_stripped(v, params):
        d = v.get('detail') or {}
        inj, exp = d.get('injected'), d.get('exported')
        return (v['class'] == 'export-not-verbatim' and d.get('encoding') == 'kern' and isinstance(inj, str) and isinstance(exp, str)
                and inj != exp and (exp == inj.replace('@', '').replace('·', '')
                                    or (inj.replace('@', '').replace('·', '') == '' and exp in ('.', '*', ''))))

    MATCHERS = {'prefix_accepted': _m_prefix_accepted.__func__, 'separator_stripped': _m_separator_stripped.__func__}


CHECK = C12()
