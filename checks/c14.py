"""C14 - the read-only API is pure and history-independent  (engine: sim-history, DESIGN 4.2).

System under simulation: a live Document L imported from a generated text (sometimes with damaged cells, so error
tokens are present), kernpy's process-global constants, and the option objects the caller passes.  A seeded history
of <=12 read-only operations (with arbitrary options, including calls that raise) is interleaved with background
traffic that touches only process-global state.  Faults: naturally raising calls generated on purpose, interruption
of an operation at a seeded kernpy line event (SimInterrupt / MemoryError), I/O faults on dump/graph targets (simfs).

Oracles after EVERY operation:
  1. the operation's normalised result equals that of the same operation on a FRESHLY IMPORTED copy F
  2. the deep structural snapshot of L equals the snapshot taken right after import
  3. the module constants deep-equal their values at the start of the run
  4. every argument object the caller passed deep-equals its pre-call copy
and at the end a fixed battery on L equals the battery on a fresh copy; at time 0 the same battery on two imports of
the text establishes "two imports are indistinguishable".
"""
from __future__ import annotations

import contextlib
import io
import re

from simkit import seeds, docgen
from simkit.ddmin import ddmin_list
from simkit.eventlog import EventLog, digest_of, canon, norm_msg
from simkit.snapshot import token_core, doc_snapshot, constants_snapshot, obj_tuple, errors_snapshot, subsumes
from simkit.simfs import SimFS, PREFIX
from simkit import interrupt as intr
from simkit.runner import kernpy_src
from checks.c12 import malformed_for, STRICT_KINDS

CATS = ['STRUCTURAL', 'HEADER', 'SPINE_OPERATION', 'CORE', 'ERROR', 'NOTE_REST', 'NOTE', 'DURATION', 'PITCH', 'ALTERATION', 'DECORATION', 'REST',
        'CHORD', 'EMPTY', 'SIGNATURES', 'CLEF', 'TIME_SIGNATURE', 'METER_SYMBOL', 'KEY_SIGNATURE', 'KEY_TOKEN', 'ENGRAVED_SYMBOLS',
        'OTHER_CONTEXTUAL', 'BARLINES', 'COMMENTS', 'FIELD_COMMENTS', 'LINE_COMMENTS', 'DYNAMICS', 'HARMONY', 'FINGERING', 'LYRICS', 'INSTRUMENTS',
        'IMAGE_ANNOTATIONS', 'BOUNDING_BOXES', 'LINE_BREAK', 'OTHER', 'MHXM', 'ROOT']
ENCS = ['kern', 'ekern', 'bkern', 'bekern', 'akern', 'aekern']
QUERY_OPS = ['spine_types', 'spine_types', 'get_all_tokens', 'get_all_tokens_encodings', 'get_unique_tokens', 'get_unique_token_encodings', 'frequencies', 'get_metacomments',
             'get_voices', 'get_header_nodes', 'get_spine_ids', 'get_spine_count', 'get_leaves', 'get_header_stage', 'get_first_measure',
             'measures_count', 'iter', 'next', 'spine_types', 'is_monophonic', 'match', 'clone', 'count_nodes_by_stage', 'str_node', 'hash_tokens',
             'category_algebra', 'tokens_to_encodings', 'str_tokens', 'eq_tokens',
             # (session 3) standard protocols and the remaining public entry points that only READ a document
             'deepcopy_doc', 'pickle_doc', 'sorted_categories', 'tree_walk', 'to_concat', 'token_export', 'node_eq_hash', 'legacy_api']
# queries whose result is a container built for the caller (NOT get_leaves/get_header_stage, which hand out the tree's own lists)
RESULT_CONTAINERS = ('get_all_tokens', 'get_all_tokens_encodings', 'get_unique_tokens', 'get_unique_token_encodings', 'frequencies',
                     'get_metacomments', 'get_header_nodes', 'get_spine_ids', 'spine_types', 'tokens_to_encodings')
BACKGROUND_OPS = ['bg_loads', 'bg_loads_damaged', 'bg_concat', 'bg_transpose_pitch', 'bg_agnostic', 'bg_export_options', 'bg_to_transposed', 'bg_importer_history',
                  'bg_load_file']


def gen_cat_arg(rng):
    """JSON spec of an include/exclude argument: container kind + category names (None = omitted)."""
    if rng.random() < 0.25:
        return None
    k = rng.choice([1, 1, 2, 3, 5])
    names = rng.sample(CATS, k)
    if rng.random() < 0.5:
        names = rng.sample(['CORE', 'SIGNATURES', 'STRUCTURAL', 'BARLINES', 'NOTE_REST', 'DURATION', 'PITCH', 'DECORATION', 'COMMENTS', 'LYRICS'], min(k, 5))
    return {'as': rng.choice(['set', 'list', 'tuple', 'single', 'set']), 'names': names}


def gen_dumps_opts(rng, raising_bias=0.2):
    o = {}
    if rng.random() < 0.7:
        o['encoding'] = rng.choice(ENCS)
    if rng.random() < 0.35:
        o['spine_types'] = rng.choice([['**kern'], ['**kern', '**text'], ['**text'], ['**dynam', '**harm', '**kern'], [], ['**kern', '**kern'], ['**root', '**kern']])
    if rng.random() < 0.3:
        o['spine_ids'] = rng.choice([[0], [0, 1], [1], [2, 0], [], [3], [0, 0]])
    inc, exc = gen_cat_arg(rng), gen_cat_arg(rng) if rng.random() < 0.5 else None
    if inc is not None:
        o['include'] = inc
    if exc is not None:
        o['exclude'] = exc
    r = rng.random()
    if r < 0.45:
        a = rng.randint(1, 4)
        o['from_measure'] = a
        if rng.random() < 0.75:
            o['to_measure'] = a + rng.randint(0, 2)
    if rng.random() < 0.15:
        o['show_measure_numbers'] = rng.random() < 0.7
    if rng.random() < 0.1:
        o['instruments'] = rng.choice([['piano'], [], ['violn', 'flt']])
    if rng.random() < raising_bias:
        # naturally raising calls, generated on purpose
        bad = rng.choice(['neg_from', 'to_beyond', 'to_before_from', 'from_beyond', 'bad_category', 'bad_encoding', 'agnostic'])
        if bad == 'neg_from':
            o['from_measure'] = -rng.randint(1, 3)
        elif bad == 'to_beyond':
            o['to_measure'] = 50 + rng.randint(0, 5)
        elif bad == 'to_before_from':
            o['from_measure'], o['to_measure'] = 3, 1
        elif bad == 'from_beyond':
            o['from_measure'] = 40
            o.pop('to_measure', None)
        elif bad == 'bad_category':
            o['include'] = {'as': 'list', 'names': ['CORE', '!not-a-category']}
        elif bad == 'bad_encoding':
            o['encoding'] = '!string:kern'
        else:
            o['encoding'] = rng.choice(['akern', 'aekern'])
    return o


class C14:
    PROPERTY = 'C14'
    TIERS = {
        'quick': {'runs': 2600, 'wall_cap_s': 300, 'chunk': 26, 'opt_leg_runs': 150},
        'thorough': {'runs': 66000, 'wall_cap_s': 1500, 'chunk': 33, 'opt_leg_runs': 600},
    }
    RULE = ('a live document (docgen, <=25 rows, 30% with 1-2 damaged **kern cells so error tokens are present) and a seeded history of 3..12 '
            'read-only operations: dumps with arbitrary options (six encodings x spine_types x spine_ids x include/exclude as set/list/tuple/single '
            'x valid and invalid measure ranges x show_measure_numbers x instruments), dump/graph to a simulated path or stdout, deprecated '
            'export() re-using ONE options object, 35 kinds of token/structure queries (incl. copy.deepcopy, pickle, tree walks with a visitor, Token.export with a caller-supplied filter, Document.to_concat, the deprecated get_spine_types/store/store_graph), interleaved with background traffic on process-global '
            'state (other loads clean and damaged, concat, pitch transposition, agnostic conversion, ExportOptions(), to_transposed of another '
            'document, long-lived importers). Faults: calls built to raise, interruption at a seeded line event, I/O faults on dump/graph targets. '
            'Non-trivial: >=3 operations were compared against a freshly imported copy and >=1 of them was a dumps/export. Distinct: digest of '
            '(document shape, operation-kind sequence with option-shape abstraction, fault kinds).')
    DISTINCT_MEASURE = 'distinct (document shape, operation sequence with option shapes, fault kinds) digests'
    COMPONENTS = {'real': ['all of kernpy (importer, exporter, tokenizers, document queries, generic, public API, graphviz exporter)',
                           'CPython io stack for dump/graph'],
                  'stub': ['raw file layer under dump/graph (simfs FakeRaw)']}
    ASSUMPTIONS = ['the reference is kernpy itself on a freshly imported copy (reference path): a read-only call that is consistently wrong is invisible',
                   'attributes whose name starts with "_" are not part of the snapshot (a private memo is not an API-visible change)',
                   'an interrupted operation only has to raise; what it returned is not compared',
                   'no thread interleavings: kernpy promises no thread safety and C14 does not quantify over schedules']
    PROBES = ['natural_raise', 'raise_mid_export', 'interrupt_delivered', 'memerr_delivered', 'range_inside_split', 'options_object_reused',
              'doc_with_error_tokens', 'io_fault_on_dump', 'compared_with_fresh', 'background_ops', 'graph_compared', 'two_imports_battery',
              'dump_compared', 'args_checked', 'caller_edited_a_result', 'reentrant_callback_delivered', 'argument_object_reused', 'reference_deferred', 'target_clobbered_between_two_dumps',
              'graph_to_a_narrow_stdout', 'background_file_import', 'reader_setting_canaries_compared', 'document_without_any_measure']

    # ================================================================ plan
    def gen_plan(self, seed, index, tier):
        st = seeds.Streams(seed, self.PROPERTY, index)
        drng, rng, frng, erng = st['doc'], st['ops'], st['faults'], st['env']
        faulty = erng.random() < 0.5
        F = docgen.swarm_features(drng, combining_sigs=False, quote_cells=False, uls_cells=False, notelike_nonkern=(drng.random() < 0.2))
        doc = docgen.gen_doc(drng, F, min_measures=drng.choice([0, 0, 2, 3]))
        if st['shape'].random() < 0.04:
            # boundary: content but NO measure at all - every data and barline row removed, interpretations and comments stay
            # (own PRNG stream; the other streams' draws are unchanged)
            doc = docgen.Doc(doc.headers, [r for r in doc.rows if r.kind not in ('data', 'bar')], doc.features)
        damage = []
        if drng.random() < 0.3:
            cells = [(ri, ci, c) for ri, ci, c in doc.data_cells() if doc.headers[c.spine] == '**kern' and doc.rows[ri].kind in ('data', 'interp')]
            for _ in range(drng.choice([1, 1, 2])):
                if cells:
                    ri, ci, c = drng.choice(cells)
                    text, kind, fam = malformed_for(drng, c.text, kinds=list(STRICT_KINDS))
                    damage.append({'row': ri, 'col': ci, 'text': text})
        others = []
        for _ in range(2):
            F2 = docgen.swarm_features(drng, combining_sigs=False, quote_cells=False, uls_cells=False, notelike_nonkern=False)
            others.append(docgen.gen_doc(drng, F2, max_spines=2, max_rows=10).to_json())
        n = rng.randint(3, 12)
        ops = []
        for i in range(n):
            kind = seeds.weighted(rng, [('dumps', 9), ('query', 8), ('background', 3), ('export_reused', 1.5), ('dump', 1.5), ('graph', 1.2),
                                        ('spine_types', 0)])
            if kind == 'dumps':
                op = {'op': 'dumps', 'opts': gen_dumps_opts(rng)}
            elif kind == 'query':
                q = rng.choice(QUERY_OPS)
                op = {'op': q}
                if q in ('get_all_tokens', 'get_all_tokens_encodings', 'get_unique_tokens', 'get_unique_token_encodings', 'frequencies'):
                    op['cats'] = gen_cat_arg(rng)
                elif q == 'get_metacomments':
                    op['key'] = rng.choice([None, 'COM', 'OTL', 'voices', 'nokey'])
                    op['clear'] = rng.random() < 0.5
                elif q == 'get_voices':
                    op['clean'] = rng.random() < 0.3
                elif q == 'spine_types':
                    op['headers'] = rng.choice([None, ['**kern'], ['**kern', '**text'], [], ['**foo']])
                elif q == 'match':
                    op['other'] = rng.randrange(3)
                    op['core_only'] = rng.random() < 0.5
                elif q in ('str_node', 'hash_tokens', 'str_tokens', 'eq_tokens', 'token_export', 'node_eq_hash', 'tree_walk', 'to_concat'):
                    op['pick'] = rng.randrange(1 << 16)
                elif q == 'legacy_api':
                    op['pick'] = rng.randrange(1 << 16)
                    op['opts'] = gen_dumps_opts(rng, raising_bias=0.1)
                if q in RESULT_CONTAINERS and rng.random() < 0.4:
                    op['edit_result'] = rng.choice(['clear', 'append', 'reverse'])   # the caller owns what a query returns
            elif kind == 'background':
                op = {'op': rng.choice(BACKGROUND_OPS), 'which': rng.randrange(2), 'pick': rng.randrange(1 << 16)}
            elif kind == 'export_reused':
                op = {'op': 'export_reused', 'opts': gen_dumps_opts(rng, raising_bias=0.1)}
            elif kind == 'dump':
                op = {'op': 'dump', 'opts': gen_dumps_opts(rng, raising_bias=0.1), 'name': rng.choice(['o.krn', 'sub/o.krn', 'a/b/c.ekrn']),
                      # the same dump twice, the file replaced by someone else in between: the second one must write again
                      'clobber_then_again': rng.random() < 0.3}
                if faulty and rng.random() < 0.4:
                    # the same dump once more: if the first one failed half-way, the second one is an ordinary call
                    ops.append(op)
                    op = dict(op, clobber_then_again=False)
            else:
                op = {'op': 'graph', 'to': rng.choice(['file', 'file', 'stdout'])}
            if faulty and kind in ('dumps', 'query', 'export_reused', 'graph') and frng.random() < 0.22:
                op['interrupt'] = {'k_u': frng.randrange(1 << 30), 'payload': frng.choice(['SimInterrupt', 'MemoryError'])}
            elif faulty and kind in ('dumps', 'query', 'export_reused') and frng.random() < 0.12:
                # re-entrancy: at a seeded line event of this operation a callback (signal handler, finalizer, logging hook)
                # makes a nested read-only call on ANOTHER document
                op['reenter'] = {'k_u': frng.randrange(1 << 30), 'which': frng.randrange(2),
                                 'nested': frng.choice(['dumps', 'dumps_akern', 'dumps_filtered', 'tokens', 'spine_types', 'loads', 'measure'])}
            ops.append(op)
        fsplan = {'io_seed': erng.randrange(1 << 30), 'chunking': erng.choice(['whole', 'small', 'tiny']), 'locale': 'utf-8', 'faults': [], 'actor': []}
        l_targets = sorted({f'{PREFIX}/L/{o["name"]}' for o in ops if o['op'] == 'dump'} | ({f'{PREFIX}/L/g.dot'} if any(o['op'] == 'graph' and o.get('to') == 'file' for o in ops) else set()))
        if faulty and l_targets and frng.random() < 0.6:
            target = frng.choice(l_targets)     # faults hit the live document's target only; the fresh copy is the unfaulted reference
            fk = frng.choice(['enospc_write', 'eio_write', 'open_error', 'eintr_write'])
            if fk == 'open_error':
                fsplan['faults'].append({'kind': 'open_error', 'errno': frng.choice(['EACCES', 'ENOENT']), 'at': {'call': frng.randint(1, 2)}, 'path': target})
            elif fk == 'eintr_write':
                fsplan['faults'].append({'kind': 'eintr_write', 'at': {'call': frng.randint(1, 3)}, 'path': target})
            else:
                fsplan['faults'].append({'kind': fk, 'at': {'byte': frng.randint(0, 120)}, 'sticky': fk == 'enospc_write', 'path': target})
        return {'property': self.PROPERTY, 'config': 'fault_injecting' if faulty else 'fault_free', 'doc': doc.to_json(), 'damage': damage,
                'others': others, 'ops': ops, 'fs': fsplan, 'reuse_argument_objects': erng.random() < 0.4, 'defer_reference': erng.random() < 0.4,
                'logging': 'DEBUG' if erng.random() < 0.08 else 'default',
                # the process's stdout, ONE stream object for the whole run: utf-8, or a strict ascii/latin-1 text layer (LANG=C)
                'stdout': 'utf-8' if erng.random() < 0.8 else erng.choice(['ascii', 'latin-1'])}

    def summarize(self, plan):
        return {'config': plan['config'], 'text': self._text(plan), 'ops': plan['ops'], 'fs_faults': plan['fs'].get('faults')}

    @staticmethod
    def _text(plan):
        doc = docgen.Doc.from_json(plan['doc'])
        fmap = {(f['row'], f['col']): f['text'] for f in plan.get('damage', [])}
        return '\n'.join('\t'.join(fmap.get((ri, ci), c.text) for ci, c in enumerate(r.cells)) for ri, r in enumerate(doc.rows)) + '\n'

    # ================================================================ execution
    def execute(self, plan):
        from simkit.envknobs import debug_logging
        with debug_logging(plan.get('logging') == 'DEBUG'):     # interpreter-environment knob: the application logs at DEBUG
            return self._execute(plan)

    def _execute(self, plan):
        import kernpy as kp
        from kernpy.core import createImporter
        log = EventLog()
        viol, faults, probes = [], {}, {}

        def bump(d, k, n=1):
            d[k] = d.get(k, 0) + n

        def add_v(cls, sig, expected, actual, **detail):
            viol.append({'class': cls, 'signature': sig, 'seq': log.seq, 'expected': expected, 'actual': actual, 'detail': detail})

        text = self._text(plan)
        other_texts = [docgen.Doc.from_json(d).render() for d in plan['others']]
        doc_abs = docgen.Doc.from_json(plan['doc'])
        CAT = kp.TokenCategory
        ENC = {'kern': kp.Encoding.normalizedKern, 'ekern': kp.Encoding.eKern, 'bkern': kp.Encoding.bKern, 'bekern': kp.Encoding.bEkern,
               'akern': kp.Encoding.agnosticKern, 'aekern': kp.Encoding.agnosticExtendedKern}

        def cat_arg(spec):
            if spec is None:
                return None
            vals = [CAT[n] if n in CAT.__members__ else n for n in spec['names']]
            return {'set': set, 'list': list, 'tuple': tuple}.get(spec['as'], lambda v: v[0])(vals)

        def dumps_kwargs(o):
            kw = {}
            for k, v in o.items():
                if k in ('include', 'exclude'):
                    kw[k] = cat_arg(v)
                elif k == 'encoding':
                    kw[k] = v[len('!string:'):] if v.startswith('!string:') else ENC[v]
                elif isinstance(v, list):
                    kw[k] = list(v)
                else:
                    kw[k] = v
            return kw

        def export_options(o):
            kw = dumps_kwargs(o)
            inc, exc = kw.pop('include', None), kw.pop('exclude', None)
            enc = kw.pop('encoding', None)
            # (no try/except here: this helper runs inside interrupted operations too, and a harness that swallows the injected
            # fault would make the operation "return normally with wrong data" all by itself)
            cats = CAT.valid(include=inc, exclude=exc)
            opt = kp.ExportOptions(**{k: v for k, v in kw.items() if k in ('spine_types', 'from_measure', 'to_measure', 'instruments', 'spine_ids')},
                                   token_categories=cats if cats is not None else None)
            if isinstance(enc, kp.Encoding):
                opt.kern_type = enc
            if 'show_measure_numbers' in kw:
                opt.show_measure_numbers = kw['show_measure_numbers']
            return opt

        # ---- imports
        def fresh():
            d, e = kp.loads(text)
            return d, e

        try:
            L, L_err = fresh()
        except Exception as e:
            log.emit('client', 'import', None, 'raised ' + type(e).__name__)
            add_v('import-raised', 'import-raised', 'a document', type(e).__name__)
            return self._result(plan, log, viol, faults, probes, doc_abs, 0, 0)
        snap0 = doc_snapshot(L)
        const0 = constants_snapshot()
        log.emit('client', 'import', digest_of(text), errors_snapshot(L_err))
        if L_err:
            bump(probes, 'doc_with_error_tokens')
        if not L.measure_start_tree_stages:
            bump(probes, 'document_without_any_measure')
        others = []
        for t in other_texts:
            try:
                others.append(kp.loads(t)[0])
            except Exception:
                others.append(None)

        fs = SimFS(plan['fs'], None)
        fs.guard_root = kernpy_src() + '/kernpy'
        fs.mkdirs(PREFIX + '/L')
        fs.mkdirs(PREFIX + '/F')
        fs.cwd = PREFIX

        norm_graph = self._norm_graph
        stdout_enc = plan.get('stdout', 'utf-8')
        run_stdout = io.TextIOWrapper(io.BytesIO(), encoding=stdout_enc, errors='strict', write_through=True)

        def captured_stdout(fn):
            """Run fn with the run's ONE stdout object in place; return what it printed (the stream is shared by all calls)."""
            start = run_stdout.buffer.tell() if not run_stdout.closed else 0
            with contextlib.redirect_stdout(run_stdout):
                fn()
            data = run_stdout.buffer.getvalue()[start:]
            return data.decode(stdout_enc, 'replace')

        def norm_tokens(toks):
            return [token_core(t) for t in toks]

        def norm_nodes(d, nodes):
            pos = {}
            for si, stage in enumerate(d.tree.stages):
                for ni, n in enumerate(stage):
                    pos[id(n)] = (si, ni)
            return [[list(pos.get(id(n), ('?', '?'))), token_core(n.token)] for n in nodes]

        state = {'reused_opts_L': None, 'reused_opts_F': None}
        # argument objects the caller keeps and edits in place between calls (live document only; the fresh copy gets new ones)
        owned = {'list': [], 'set': set()}

        def reuse(value, side):
            """The same list / set OBJECT as in the previous call, emptied and refilled by its owner."""
            if side != 'L' or not plan.get('reuse_argument_objects'):
                return value
            if isinstance(value, list):
                owned['list'][:] = value
                bump(probes, 'argument_object_reused')
                return owned['list']
            if isinstance(value, set):
                owned['set'].clear()
                owned['set'].update(value)
                bump(probes, 'argument_object_reused')
                return owned['set']
            return value

        def check_args(passed, pristine, opname, side):
            """Oracle 4: every argument object the caller passed deep-equals its pre-call copy (rebuilt from the literal spec)."""
            if side != 'L':
                return
            bump(probes, 'args_checked')
            a, b = canon(passed), canon(pristine)
            if a != b:
                key = next((kk for kk in b if a.get(kk) != b.get(kk)), '?')
                add_v('argument-mutated', f'argument-mutated/{opname}/{key}', b.get(key), a.get(key), op=opname)

        def own(raw, op, side, norm=lambda x: x):
            """The caller owns the container a query returned: normalise a copy for comparison, then (live document only) edit
            the returned object itself - a later call must not be affected."""
            res = norm(raw)
            if side == 'L' and op.get('edit_result') and isinstance(raw, (list, dict)):
                bump(probes, 'caller_edited_a_result')
                if op['edit_result'] == 'clear':
                    raw.clear()
                elif isinstance(raw, list):
                    raw.reverse() if op['edit_result'] == 'reverse' else raw.append(None)
                else:
                    raw['<caller>'] = {'occurrences': 0, 'category': 'X'}
            return res

        def run_op(d, op, side):
            """Execute one read-only operation on document d. Returns a normalised, comparable result."""
            k = op['op']
            if k == 'dumps':
                kw = dumps_kwargs(op['opts'])
                for key in ('spine_types', 'include', 'exclude'):
                    if key in kw:
                        kw[key] = reuse(kw[key], side)      # at most one list and one set object are shared per call
                        if isinstance(kw[key], (list, set)):
                            break
                try:
                    return kp.dumps(d, **kw)
                finally:
                    check_args(kw, dumps_kwargs(op['opts']), k, side)
            if k == 'export_reused':
                key = 'reused_opts_' + side
                if side == 'L':
                    if state[key] is None:
                        state[key] = export_options(op['opts'])
                    else:
                        bump(probes, 'options_object_reused')
                        new = export_options(op['opts'])
                        for a in ('spine_types', 'from_measure', 'to_measure', 'token_categories', 'kern_type', 'instruments', 'show_measure_numbers', 'spine_ids'):
                            setattr(state[key], a, getattr(new, a))
                    opt = state[key]
                else:
                    opt = export_options(op['opts'])
                before = obj_tuple(opt)
                try:
                    return kp.export(d, opt)
                finally:
                    if obj_tuple(opt) != before:
                        add_v('argument-mutated', 'argument-mutated/ExportOptions', before, obj_tuple(opt), op=k, side=side)
            if k == 'dump':
                path = f'{PREFIX}/{side}/{op["name"]}'
                kw = dumps_kwargs(op['opts'])
                try:
                    kp.dump(d, path, **kw)
                finally:
                    check_args(kw, dumps_kwargs(op['opts']), k, side)
                if side == 'L' and op.get('clobber_then_again'):
                    fs.put(path, b'SOMEONE ELSE WROTE THIS\n')
                    bump(probes, 'target_clobbered_between_two_dumps')
                    kp.dump(d, path, **dumps_kwargs(op['opts']))
                return fs.get(path)
            if k == 'graph':
                if op['to'] == 'stdout':
                    if stdout_enc != 'utf-8':
                        bump(probes, 'graph_to_a_narrow_stdout')
                    return norm_graph(captured_stdout(lambda: kp.graph(d, None)))
                path = f'{PREFIX}/{side}/g.dot'
                kp.graph(d, path)
                data = fs.get(path)
                return norm_graph(data.decode('utf-8')) if data is not None else None
            if k in ('get_all_tokens', 'get_unique_tokens', 'get_all_tokens_encodings', 'get_unique_token_encodings', 'frequencies'):
                arg = reuse(cat_arg(op.get('cats')), side)
                try:
                    if k in ('get_all_tokens', 'get_unique_tokens'):
                        return own(getattr(d, k)(filter_by_categories=arg), op, side, norm_tokens)
                    if k == 'frequencies':
                        return own(d.frequencies(token_categories=arg), op, side, lambda x: canon(x))
                    return own(getattr(d, k)(filter_by_categories=arg), op, side, list)
                finally:
                    check_args({'categories': arg}, {'categories': cat_arg(op.get('cats'))}, k, side)
            if k == 'get_metacomments':
                return own(d.get_metacomments(KeyComment=op['key'], clear=op['clear']), op, side, list)
            if k == 'get_voices':
                r = d.get_voices(clean=op['clean'])
                return [token_core(t) if hasattr(t, 'encoding') else t for t in r]
            if k == 'get_header_nodes':
                return own(d.get_header_nodes(), op, side, norm_tokens)
            if k == 'get_spine_ids':
                return own(d.get_spine_ids(), op, side, list)
            if k == 'get_spine_count':
                return d.get_spine_count()
            if k == 'get_leaves':
                return norm_nodes(d, d.get_leaves())
            if k == 'get_header_stage':
                return norm_nodes(d, d.get_header_stage())
            if k == 'get_first_measure':
                return d.get_first_measure()
            if k == 'measures_count':
                return d.measures_count()
            if k == 'iter':
                return list(d)
            if k == 'next':
                return [next(d), next(d)]
            if k == 'spine_types':
                h = op.get('headers')
                arg = reuse(list(h), side) if h is not None else None
                try:
                    return own(kp.spine_types(d, headers=arg), op, side, list)
                finally:
                    check_args({'headers': arg}, {'headers': list(h) if h is not None else None}, k, side)
            if k == 'is_monophonic':
                return kp.is_monophonic(d)
            if k == 'match':
                o = ([d] + others)[op['other'] % (1 + len(others))]
                if o is None:
                    return None
                return [kp.Document.match(d, o, check_core_spines_only=op['core_only']), kp.Document.match(o, d, check_core_spines_only=op['core_only'])]
            if k == 'clone':
                c = d.clone()
                return [doc_snapshot(c) == doc_snapshot(d), kp.dumps(c) == kp.dumps(d), c is not d, c.tree is not d.tree]
            if k == 'count_nodes_by_stage':
                return d.tree.root.count_nodes_by_stage()
            nodes = [n for stage in d.tree.stages for n in stage]
            if k == 'str_node':
                n = nodes[op['pick'] % len(nodes)]
                return norm_msg(str(n)) if n.token is not None else 'root'      # error descriptions carry object addresses
            if k == 'hash_tokens':
                toks = [n.token for n in nodes if n.token is not None]
                t = toks[op['pick'] % len(toks)]
                return [hash(t) == hash(t), len({hash(x) == hash(x) for x in toks})]
            if k == 'str_tokens':
                toks = [n.token for n in nodes if n.token is not None]
                return [str(x) if not type(x).__name__ == 'ErrorToken' else ['ErrorToken', x.encoding, x.line] for x in toks[op['pick'] % len(toks):][:6]]
            if k == 'eq_tokens':
                toks = [n.token for n in nodes if n.token is not None]
                a, b = toks[op['pick'] % len(toks)], toks[(op['pick'] // 7) % len(toks)]
                return [a == b, a != b, a == a]
            if k == 'tokens_to_encodings':
                return own(kp.Document.tokens_to_encodings(d.get_all_tokens()), op, side, list)
            if k == 'deepcopy_doc':
                import copy as _copy
                c = _copy.deepcopy(d)
                return [doc_snapshot(c) == doc_snapshot(d), kp.dumps(c, encoding=kp.Encoding.eKern), c is not d]
            if k == 'pickle_doc':
                import pickle as _pickle
                c = _pickle.loads(_pickle.dumps(d))
                return [doc_snapshot(c) == doc_snapshot(d), kp.dumps(c, encoding=kp.Encoding.eKern)]
            if k == 'sorted_categories':
                cats = [n.token.category for n in nodes if n.token is not None]
                return [[c.name for c in sorted(cats)], [c.name for c in sorted(set(cats))], max(cats).name, min(cats).name]
            if k == 'tree_walk':
                class _Visitor:
                    def __init__(self):
                        self.out = []

                    def visit(self, node):
                        self.out.append([getattr(node, 'stage', None), token_core(node.token) if node.token is not None else None, len(node.children)])
                walk = [d.tree.dfs, d.tree.dfs_iterative, d.tree.root.dfs, d.tree.root.dfs_iterative][op['pick'] % 4]
                v = _Visitor()
                walk(v)
                return v.out
            if k == 'to_concat':
                o = ([d] + others)[op['pick'] % (1 + len(others))]
                if o is None:
                    return None
                c = kp.Document.to_concat(d, o)           # deep_copy=True: both arguments are copied first
                return [kp.dumps(c, encoding=kp.Encoding.eKern), c is not d]
            if k == 'token_export':
                toks = [n.token for n in nodes if n.token is not None]
                keep = {CAT[x] for x in CATS[op['pick'] % 7::3]}
                out = []
                for t in toks[op['pick'] % len(toks):][:5]:
                    out.append([t.export(), t.export(filter_categories=lambda c: c in keep), t.export(filter_categories=lambda c: True)])
                return out
            if k == 'node_eq_hash':
                a, b = nodes[op['pick'] % len(nodes)], nodes[(op['pick'] // 11) % len(nodes)]
                return [a == b, a != b, a == a, hash(a) == hash(a), len({n for n in nodes}) == len(nodes)]
            if k == 'legacy_api':
                import warnings as _warnings
                with _warnings.catch_warnings():
                    _warnings.simplefilter('ignore')        # the deprecated entry points announce themselves; that is not the subject
                    which = op['pick'] % 3
                    if which == 0:
                        h = [None, ['**kern'], ['**text', '**kern'], []][(op['pick'] // 3) % 4]
                        return own(kp.get_spine_types(d, h), op, side, list)
                    if which == 1:
                        path = f'{PREFIX}/{side}/legacy.krn'
                        kp.store(d, path, export_options(op['opts']))
                        return fs.get(path)
                    path = f'{PREFIX}/{side}/legacy.dot'
                    kp.store_graph(d, path)
                    data = fs.get(path)
                    return norm_graph(data.decode('utf-8')) if data is not None else None
            if k == 'category_algebra':
                c = CAT[CATS[op.get('pick', 3) % len(CATS)]] if 'pick' in op else CAT.CORE
                return [sorted(x.name for x in CAT.valid(include={CAT.CORE}, exclude={CAT.DURATION})), sorted(x.name for x in CAT.nodes(c)),
                        sorted(x.name for x in CAT.children(c)), CAT.match(c, include={CAT.CORE}), len(CAT.tree()), sorted(x.name for x in CAT.all())]
            raise ValueError('unknown op ' + k)

        def background(op):
            k = op['op']
            t = other_texts[op['which'] % len(other_texts)]
            if k == 'bg_loads':
                # a short-lived document of ANOTHER text that is queried and then dropped: its memory (and id()) is free for
                # the next freshly imported copy, so anything keyed on object identity shows up as a wrong result there
                tmp, _ = kp.loads(t)
                for fn in (lambda: kp.dumps(tmp), lambda: kp.dumps(tmp, encoding=kp.Encoding.eKern), lambda: tmp.get_all_tokens_encodings(),
                           lambda: kp.spine_types(tmp), lambda: tmp.frequencies(), lambda: tmp.get_unique_token_encodings(),
                           lambda: kp.dumps(tmp, from_measure=1, to_measure=1), lambda: tmp.measures_count(), lambda: kp.is_monophonic(tmp)):
                    try:
                        fn()
                    except Exception:
                        pass
                del tmp
            elif k == 'bg_loads_damaged':
                lines = t.split('\n')
                cand = [i for i, l in enumerate(lines) if l and not l.startswith(('!', '*')) and i > 0]
                if cand:
                    i = cand[op['pick'] % len(cand)]
                    cells = lines[i].split('\t')
                    cells[0] = '4c€'
                    lines[i] = '\t'.join(cells)
                kp.loads('\n'.join(lines))
            elif k == 'bg_concat':
                lines = [l for l in t.split('\n') if l and not l.startswith('!!')]
                bars = [i for i, l in enumerate(lines) if l.startswith('=')]
                if len(bars) >= 2:
                    cut = bars[len(bars) // 2]
                    kp.concat(['\n'.join(lines[:cut]), '\n'.join(lines[cut:])])
                else:
                    kp.concat([t])
            elif k == 'bg_transpose_pitch':
                from kernpy.core.transposer import IntervalsByName
                for p, iv in (('c', 'M2'), ('ee-', 'P5'), ('GG#', 'm3'), ('b', 'octave')):
                    kp.transpose(p, IntervalsByName[iv], direction='up' if op['pick'] % 2 else 'down')
                kp.distance('c', 'gg#')
            elif k == 'bg_agnostic':
                o = others[op['which'] % len(others)]
                if o is not None:
                    for e in (kp.Encoding.agnosticKern, kp.Encoding.agnosticExtendedKern, kp.Encoding.bEkern):
                        try:
                            kp.dumps(o, encoding=e)
                        except Exception:
                            pass
            elif k == 'bg_export_options':
                a = kp.ExportOptions()
                b = kp.ExportOptions.default()
                a.spine_types.discard('**kern') if isinstance(a.spine_types, set) else None
                b.token_categories.clear()
                kp.ExportOptions(spine_types=['**kern'], token_categories=kp.BEKERN_CATEGORIES) == a
            elif k == 'bg_to_transposed':
                o = others[op['which'] % len(others)]
                if o is not None:
                    try:
                        o.to_transposed(['M2', 'P5', 'dd2', 'AA5'][op['pick'] % 4], 'up' if op['pick'] % 2 else 'down')
                    except Exception:
                        pass
            elif k == 'bg_load_file':
                # an unrelated FILE import in the same process (process-wide reader settings are shared state too)
                path = f'{PREFIX}/bg/other{op["which"] % 2}.krn'
                fs.mkdirs(f'{PREFIX}/bg')
                fs.put(path, t.encode('utf-8'))
                tmp, _ = kp.load(path)
                kp.dumps(tmp)
                bump(probes, 'background_file_import')
            elif k == 'bg_importer_history':
                imp = createImporter(['**kern', '**text', '**mxhm', '**root'][op['pick'] % 4])
                for tok in ('4c', '4c€', '=1', '*clefG2', 'zz', '4e'):
                    try:
                        imp.import_token(tok)
                    except Exception:
                        pass

        def call(fn):
            try:
                return ('ok', fn())
            except Exception as e:
                return ('exc', type(e).__name__)

        stream_state = {'reported': False}

        def interpreter_state():
            """Process-wide interpreter settings a library call has no business changing."""
            import csv as _csv
            import logging as _logging
            import sys as _sys
            import warnings as _warnings
            return {'warnings.filters': [repr(f) for f in _warnings.filters], 'recursionlimit': _sys.getrecursionlimit(),
                    'csv.field_size_limit': _csv.field_size_limit(), 'logging.root.level': _logging.getLogger().level,
                    'logging.disable': _logging.root.manager.disable, 'sys.stdout': id(_sys.stdout), 'sys.stderr': id(_sys.stderr)}
        interp0 = interpreter_state()

        def after_op(opname, idx):
            if run_stdout.closed and not stream_state['reported']:
                stream_state['reported'] = True
                add_v('stream-closed', f'stream-closed/stdout/by={opname}', 'the caller\'s stdout stays open', 'closed', op=opname, index=idx)
            ist = interpreter_state()
            if ist != interp0:
                key = next(k for k in interp0 if interp0[k] != ist.get(k))
                add_v('interpreter-state-mutated', f'interpreter-state-mutated/{key}/by={opname}', interp0[key] if key != 'warnings.filters' else len(interp0[key]),
                      ist.get(key) if key != 'warnings.filters' else len(ist[key]), op=opname, index=idx)
                interp0.clear()
                interp0.update(ist)
            s = doc_snapshot(L)
            where = subsumes(snap0, s)
            if where:
                add_v('document-mutated', f'document-mutated/by={opname}', 'snapshot taken right after import', where, op=opname, index=idx, where=where)
                snap0.clear()
                snap0.update(s)          # report one mutation once
            c = constants_snapshot()
            if subsumes(const0, c):
                keys = sorted(k for k in const0 if subsumes(const0.get(k), c.get(k, '<removed>')))
                add_v('constant-mutated', f'constant-mutated/{keys[0] if keys else "?"}/by={opname}', 'module constants as at the start of the run', keys,
                      op=opname, index=idx)
                const0.clear()
                const0.update(c)

        # ---- time 0: two imports of the same text are indistinguishable
        try:
            # (two further imports, not L itself: the live document stays untouched - cold - until the first operation of the
            # history, so that a fault can land in the very first use of anything that is built lazily per document)
            F0, F0_err = fresh()
            F00, F00_err = fresh()
            b1, b2 = self._battery(kp, F00, F00_err, norm_graph), self._battery(kp, F0, F0_err, norm_graph)
            log.emit('client', 'battery-0', None, digest_of(b1))
            bump(probes, 'two_imports_battery')
            if b1 != b2:
                k = next((i for i, (x, y) in enumerate(zip(b1, b2)) if x != y), -1)
                add_v('imports-distinguishable', f'imports-distinguishable/item{k}', *self._clip_pair(b1[k], b2[k]))
            if doc_snapshot(F0) != snap0:
                add_v('imports-distinguishable', 'imports-distinguishable/snapshot', 'equal snapshots', self._first_diff(snap0, doc_snapshot(F0)))
                # (two snapshots taken at the same moment by the same code: plain equality is the right comparison here)
        except Exception as e:
            add_v('import-raised', 'import-raised/second', 'a document', type(e).__name__)
        after_op('battery', -1)

        # ---- canaries: texts whose import leans on process-wide reader settings (csv field limit, quoting); only in runs that
        #      import a file in the background, where such a setting could have been touched
        canaries = None
        if any(o['op'] == 'bg_load_file' for o in plan['ops']):
            canary_texts = ['**kern\t**text\n4c\t' + 'la' * 65600 + '\n*-\t*-\n', '**kern\t**text\n4c\t"quo\n4d\tted"\n*-\t*-\n']

            def canary_outcomes():
                out = []
                for ct in canary_texts:
                    try:
                        cd, ce = kp.loads(ct)
                        out.append(['ok', len(ce), digest_of(kp.dumps(cd))])
                    except Exception as e:
                        out.append(['exc', type(e).__name__])
                return out
            canaries = canary_outcomes()

        counters = {'compared': 0, 'dumps': 0}
        pending = []
        deferred = bool(plan.get('defer_reference'))

        def judge(op, idx, rL, rF, faulted):
            k = op['op']
            if faulted and rL[0] == 'exc':
                return
            if rL != rF:
                add_v('differs-from-fresh-copy', f'differs-from-fresh-copy/{k}', *self._clip_pair(rF, rL), op=k, index=idx,
                      opts=op.get('opts'), history=[self._op_abstract(x) for x in plan['ops'][:idx]])
                return
            counters['compared'] += 1
            bump(probes, 'compared_with_fresh')
            if k in ('dumps', 'export_reused'):
                counters['dumps'] += 1
            if k == 'graph':
                bump(probes, 'graph_compared')
            if k == 'dump':
                bump(probes, 'dump_compared')

        def flush_pending():
            while pending:
                op, idx, rL, faulted = pending.pop(0)
                try:
                    Fd, _ = fresh()
                except Exception as e:
                    add_v('import-raised', 'import-raised/fresh-copy', 'a document', type(e).__name__, index=idx)
                    continue
                judge(op, idx, rL, call(lambda: run_op(Fd, op, 'F')), faulted)

        measures = len(L.measure_start_tree_stages)
        inj = intr.injector(kernpy_src())
        with fs.mount():
            for idx, op in enumerate(plan['ops']):
                k = op['op']
                if k.startswith('bg_') or 'interrupt' in op:
                    flush_pending()
                if k.startswith('bg_'):
                    r = call(lambda: background(op))
                    log.emit('background', k, op.get('which'), r[0])
                    bump(probes, 'background_ops')
                    after_op(k, idx)
                    continue
                if k in ('dumps', 'export_reused', 'dump'):
                    o = op['opts']
                    if 'from_measure' in o and self._range_inside_split(doc_abs, o.get('from_measure')):
                        bump(probes, 'range_inside_split')
                fault_before = sum(f.fired for f in fs.faults if not f.kind.startswith('eintr'))
                if 'interrupt' in op:
                    try:
                        replica, _ = fresh()
                    except Exception:
                        continue
                    total = inj.count_events(lambda: run_op(replica, op, 'F'))
                    if total <= 0:
                        continue
                    kk = 1 + op['interrupt']['k_u'] % total
                    payload = op['interrupt']['payload']
                    delivered, out = inj.run(lambda: run_op(L, op, 'L'), kk, payload)
                    log.emit('fault', 'interrupt:' + k, payload, [delivered, out[0]])
                    bump(faults, 'interrupt_' + payload)
                    if delivered:
                        bump(probes, 'interrupt_delivered' if payload == 'SimInterrupt' else 'memerr_delivered')
                        if out[0] == 'ok':
                            # C14 does not state that the fault must propagate - but a call that RETURNS NORMALLY returns the result a
                            # fresh copy gives (the faulted operation may raise, it may never return wrong data: DESIGN 3.6)
                            bump(probes, 'interrupt_swallowed_by_a_handler')
                            try:
                                Fi, _ = fresh()
                                rFi = call(lambda: run_op(Fi, op, 'F'))
                                if ('ok', out[1]) != rFi:
                                    add_v('differs-from-fresh-copy', f'differs-from-fresh-copy/{k}/returned-normally-after-injected-{payload}',
                                          *self._clip_pair(rFi, ('ok', out[1])), op=k, index=idx, payload=payload)
                            except Exception:
                                pass
                    after_op('interrupted-' + k, idx)
                    continue
                # ---- the same operation on a freshly imported copy, imported at this moment and never touched before
                nested_fn = None
                if 'reenter' in op:
                    o_doc = others[op['reenter']['which'] % len(others)]
                    o_text = other_texts[op['reenter']['which'] % len(other_texts)]
                    nk = op['reenter']['nested']
                    if o_doc is not None:
                        nested_fn = {
                            'dumps': lambda: kp.dumps(o_doc, encoding=kp.Encoding.eKern),
                            'dumps_akern': lambda: kp.dumps(o_doc, encoding=kp.Encoding.agnosticExtendedKern),
                            'dumps_filtered': lambda: kp.dumps(o_doc, include={CAT.NOTE_REST, CAT.STRUCTURAL}, exclude={CAT.DECORATION}, encoding=kp.Encoding.bEkern),
                            'tokens': lambda: o_doc.get_all_tokens_encodings(),
                            'spine_types': lambda: kp.spine_types(o_doc),
                            'loads': lambda: kp.dumps(kp.loads(o_text)[0]),
                            'measure': lambda: kp.dumps(o_doc, from_measure=1, to_measure=1),
                        }[nk]
                if deferred and nested_fn is None:
                    # reference deferred: the live document makes its calls back to back (nothing in between, not even the
                    # reference's own call); the fresh copies are imported and asked afterwards, two operations at a time
                    rL = call(lambda: run_op(L, op, 'L'))
                    faulted = sum(f.fired for f in fs.faults if not f.kind.startswith('eintr')) != fault_before
                    log.emit('client', k, self._op_abstract(op), digest_of(rL))
                    if faulted:
                        bump(probes, 'io_fault_on_dump')
                        bump(faults, 'io_fault')
                    if rL[0] == 'exc':
                        bump(probes, 'natural_raise')
                    pending.append((op, idx, rL, faulted))
                    bump(probes, 'reference_deferred')
                    after_op(k, idx)
                    if len(pending) >= 2:
                        flush_pending()
                    continue
                flush_pending()
                try:
                    Fd, _ = fresh()
                except Exception as e:
                    add_v('import-raised', 'import-raised/fresh-copy', 'a document', type(e).__name__, index=idx)
                    continue
                rF = call(lambda: run_op(Fd, op, 'F'))
                if nested_fn is not None:
                    nested_ref = call(nested_fn)                     # the nested call on its own, as the reference
                    try:
                        replica2, _ = fresh()
                    except Exception:
                        continue
                    total = inj.count_events(lambda: run_op(replica2, op, 'F'))
                    if total <= 0:
                        continue
                    nested_got = {}

                    def cb():
                        nested_got['v'] = call(nested_fn)
                    delivered, out = inj.run_with_callback(lambda: run_op(L, op, 'L'), 1 + op['reenter']['k_u'] % total, cb)
                    rL = ('ok', out[1]) if out[0] == 'ok' else ('exc', type(out[1]).__name__)
                    bump(faults, 'reentrant_callback')
                    if delivered:
                        bump(probes, 'reentrant_callback_delivered')
                        if nested_got.get('v') != nested_ref:
                            add_v('reentrancy', f'reentrancy/nested-{op["reenter"]["nested"]}-inside-{k}', *self._clip_pair(nested_ref, nested_got.get('v')),
                                  op=k, nested=op['reenter']['nested'])
                else:
                    rL = call(lambda: run_op(L, op, 'L'))
                faulted = sum(f.fired for f in fs.faults if not f.kind.startswith('eintr')) != fault_before
                log.emit('client', k, self._op_abstract(op), digest_of(rL))
                if faulted:
                    bump(probes, 'io_fault_on_dump')
                    bump(faults, 'io_fault')
                if rL[0] == 'exc':
                    bump(probes, 'natural_raise')
                    if k in ('dumps', 'export_reused') and str(op['opts'].get('encoding', '')).startswith('a'):
                        bump(probes, 'raise_mid_export')
                judge(op, idx, rL, rF, faulted)
                after_op(k, idx)
            flush_pending()
        if fs.escapes:
            from simkit.runner import HarnessError
            raise HarnessError('closure guard: real-path I/O from kernpy during a simulated run: ' + '; '.join(fs.escapes[:3]))
        if canaries is not None:
            again = canary_outcomes()
            bump(probes, 'reader_setting_canaries_compared')
            if again != canaries:
                add_v('imports-distinguishable', 'imports-distinguishable/same-text-before-and-after-the-history', canaries, again)
        # ---- end of run: fixed battery on L equals the battery on a fresh copy
        try:
            Fe, Fe_err = fresh()
            bL, bF = self._battery(kp, L, L_err, norm_graph), self._battery(kp, Fe, Fe_err, norm_graph)
            log.emit('client', 'battery-end', None, digest_of(bL))
            if bL != bF:
                kx = next((i for i, (x, y) in enumerate(zip(bL, bF)) if x != y), -1)
                add_v('differs-from-fresh-copy', f'differs-from-fresh-copy/final-battery/item{kx}', *self._clip_pair(bF[kx], bL[kx]),
                      history=[self._op_abstract(x) for x in plan['ops']])
        except Exception as e:
            add_v('import-raised', 'import-raised/final', 'a document', type(e).__name__)
        after_op('final-battery', len(plan['ops']))
        for kf, vf in fs.stats.items():
            if kf.startswith('fault_'):
                bump(faults, kf, vf)
        return self._result(plan, log, viol, faults, probes, doc_abs, counters['compared'], counters['dumps'])

    # ---------------------------------------------------------------- helpers
    def _result(self, plan, log, viol, faults, probes, doc_abs, compared, dumps_compared):
        shape = digest_of([doc_abs.shape(), [self._op_abstract(o) for o in plan['ops']], sorted(f['kind'] for f in plan['fs'].get('faults', [])),
                           len(plan.get('damage', []))])
        return {'digest': log.digest(), 'events': log.seq, 'faults': faults, 'probes': probes, 'shape': shape,
                'nontrivial': compared >= 3 and dumps_compared >= 1, 'config': plan['config'], 'hash_sensitive': any('interrupt' in o or 'reenter' in o for o in plan['ops']), 'violations': viol,
                'extra': {'sum': {'ops_compared_with_fresh': compared}}}

    @staticmethod
    def _op_abstract(op):
        """Operation kind with option-shape abstraction (which options are present, container kinds), no values."""
        o = op.get('opts')
        if o is None:
            return [op['op'], sorted(k for k in op if k not in ('op', 'pick', 'which', 'interrupt')), 'interrupt' in op]
        shape = []
        for k in sorted(o):
            v = o[k]
            if k in ('include', 'exclude'):
                shape.append(f'{k}:{v["as"]}:{len(v["names"])}')
            elif k == 'encoding':
                shape.append('encoding:' + v)
            elif k in ('from_measure', 'to_measure'):
                shape.append(f'{k}:{"neg" if v < 0 else "big" if v > 30 else "ok"}')
            else:
                shape.append(k)
        return [op['op'], shape, 'interrupt' in op]

    @staticmethod
    def _clip(x):
        s = x if isinstance(x, str) else repr(canon(x))
        return s if len(s) <= 700 else s[:700] + f'...[{len(s)}]'

    @classmethod
    def _clip_pair(cls, a, b):
        """Two values clipped around their first difference."""
        sa = a if isinstance(a, str) else repr(canon(a))
        sb = b if isinstance(b, str) else repr(canon(b))
        i = next((j for j, (x, y) in enumerate(zip(sa, sb)) if x != y), min(len(sa), len(sb)))
        lo = max(0, i - 200)
        return (('...' if lo else '') + sa[lo:i + 300], ('...' if lo else '') + sb[lo:i + 300])

    _NODE = re.compile(r'node\d+')
    # node ids appear only in these structured positions of a label; '#<digits>' inside a token text is not an id
    _HASH = re.compile(r'(?<=\{ )#\d+(?=\| stage)|(?<=header )#\d+|(?<=last spine op\. )#\d+|(?<=Token )#\d+')

    @classmethod
    def _norm_graph(cls, text):
        names = {}

        def ren(m):
            return names.setdefault(m.group(0), f'N{len(names)}')
        ids = {}

        def ren2(m):
            return ids.setdefault(m.group(0), f'#i{len(ids)}')
        return cls._HASH.sub(ren2, cls._NODE.sub(ren, text))

    @staticmethod
    def _first_diff(a, b, path=''):
        if type(a) != type(b):
            return f'{path}: {type(a).__name__} -> {type(b).__name__}'
        if isinstance(a, dict):
            for k in sorted(set(a) | set(b), key=str):
                if a.get(k) != b.get(k):
                    return C14._first_diff(a.get(k), b.get(k), f'{path}.{k}')
        elif isinstance(a, list):
            if len(a) != len(b):
                return f'{path}: len {len(a)} -> {len(b)}'
            for i, (x, y) in enumerate(zip(a, b)):
                if x != y:
                    return C14._first_diff(x, y, f'{path}[{i}]')
        return f'{path}: {str(a)[:80]!r} -> {str(b)[:80]!r}'

    @staticmethod
    def _range_inside_split(doc_abs, from_measure):
        """Does measure ``from_measure`` start while a spine is split?"""
        if not isinstance(from_measure, int) or from_measure < 1:
            return False
        bars = 0
        for r in doc_abs.rows:
            if r.kind == 'bar':
                bars += 1
                if bars == from_measure:
                    return len(r.cells) > len(doc_abs.headers)
        return False

    @staticmethod
    def _battery(kp, d, errs, norm_graph):
        out = []

        def add(fn):
            try:
                out.append(fn())
            except Exception as e:
                out.append('raised ' + type(e).__name__)
        add(lambda: kp.dumps(d))
        add(lambda: kp.dumps(d, encoding=kp.Encoding.eKern))
        add(lambda: kp.dumps(d, encoding=kp.Encoding.agnosticExtendedKern))
        add(lambda: kp.dumps(d, encoding=kp.Encoding.bKern, spine_types=['**kern']))
        add(lambda: [token_core(t) for t in d.get_all_tokens()])
        add(lambda: d.get_unique_token_encodings())
        add(lambda: d.frequencies())
        add(lambda: d.get_metacomments())
        add(lambda: kp.spine_types(d))
        add(lambda: kp.is_monophonic(d))
        add(lambda: d.measures_count())
        add(lambda: [kp.dumps(d, from_measure=m, to_measure=m) for m in list(d)[:4]])
        add(lambda: d.tree.root.count_nodes_by_stage())
        add(lambda: errors_snapshot(errs))
        buf = io.StringIO()

        def g():
            with contextlib.redirect_stdout(buf):
                kp.graph(d, None)
            return norm_graph(buf.getvalue())
        add(g)
        return out

    # ================================================================ minimisation
    def shrink(self, plan, still_fails, budget):
        cur = dict(plan)
        ops = ddmin_list(cur['ops'], lambda o: still_fails(dict(cur, ops=o)), budget, min_len=0)
        if still_fails(dict(cur, ops=ops)):
            cur = dict(cur, ops=ops)
        # strip interruption / faults / damage if not needed
        for cand in (dict(cur, fs=dict(cur['fs'], faults=[])), dict(cur, damage=[]),
                     dict(cur, ops=[{k: v for k, v in o.items() if k != 'interrupt'} for o in cur['ops']])):
            if cand != cur and still_fails(cand):
                cur = cand
        # simpler options: drop option keys one at a time
        for i in range(len(cur['ops'])):
            o = cur['ops'][i]
            if 'opts' in o:
                for key in sorted(o['opts']):
                    cand_o = dict(o, opts={k: v for k, v in o['opts'].items() if k != key})
                    cand = dict(cur, ops=cur['ops'][:i] + [cand_o] + cur['ops'][i + 1:])
                    if still_fails(cand):
                        cur = cand
                        o = cand_o
        # smaller document
        import kernpy as kp
        doc = cur['doc']
        idx = list(range(len(doc['rows'])))
        dmg_rows = {f['row'] for f in cur.get('damage', [])}

        def build(ix):
            ix = sorted(ix)
            if not dmg_rows <= set(ix):
                return None
            remap = {old: new for new, old in enumerate(ix)}
            return dict(cur, doc=dict(doc, rows=[doc['rows'][i] for i in ix]), damage=[dict(f, row=remap[f['row']]) for f in cur.get('damage', [])])

        def test(ix):
            p = build(ix)
            if p is None:
                return False
            try:
                if not docgen.Doc.from_json(p['doc']).consistent():
                    return False
                kp.loads(self._text(p))
            except Exception:
                return False
            return still_fails(p)

        ix = ddmin_list(idx, test, budget, min_len=2)
        if test(ix):
            cur = build(ix)
        return cur

    MATCHERS = {}


CHECK = C14()
