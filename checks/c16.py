"""C16 - pitch spelling codec is lossless and side-effect free  (engine: sim-history, DESIGN 4.4).

System under simulation: ONE long-lived HumdrumPitchImporter, ONE HumdrumPitchExporter, ONE
AmericanPitchExporter (a second reader of the same objects) and a pool of AgnosticPitch objects that
are reused across a seeded call history.  Reference model (independent of kernpy):
(letter, alteration -3..3, octave -1..9) <-> Humdrum spelling, written from the Humdrum rule.

Invariant after EVERY operation: every pool object still has the (name, octave) of its model.
Faults: invalid spellings / invalid constructor arguments between valid calls, and interruption of
an export at a seeded kernpy line event.  After a fault nothing is relaxed except the faulted call's
own result.
"""
from __future__ import annotations

import contextlib

from simkit import seeds
from simkit.ddmin import ddmin_list
from simkit.eventlog import EventLog, digest_of
from simkit import interrupt as intr
from simkit.runner import kernpy_src
from simkit.envknobs import debug_logging, closed_stderr

LETTERS = 'cdefgab'
ALTS = (-3, -2, -1, 0, 1, 2, 3)
OCTAVES = tuple(range(-1, 10))
GRID = [(l, a, o) for l in LETTERS for a in ALTS for o in OCTAVES]          # 539 spellings
INTERVALS = ['P1', 'm2', 'M2', 'm3', 'M3', 'P4', 'A4', 'd5', 'P5', 'm6', 'M6', 'm7', 'M7', 'octave', 'AA1', 'dd2']

BAD_SPELLINGS = ['c#-', 'c-#', 'cC', 'Cc', 'c####', 'c----', 'h', 'H', '1', '', '#', '-', 'cd', 'r', 'c#c', 'x#', ' c', 'c n']
BAD_NEW = [('H', 4), ('C++++', 4), ('', 4), ('C', 'x'), ('C', None), ('CD', 3), ('C', 4.5), ('c#b#b', 2)]


def spell(letter: str, alt: int, octave: int) -> str:
    """The Humdrum rule: lower case repeated for octave >= 4, upper case repeated below; # / - repeated."""
    body = letter.lower() * (octave - 3) if octave >= 4 else letter.upper() * (4 - octave)
    return body + ('#' * alt if alt > 0 else '-' * (-alt))


def model_name(letter: str, alt: int) -> str:
    return letter.upper() + ('+' * alt if alt > 0 else '-' * (-alt))


def spell_from_name(name: str, octave: int) -> str | None:
    """Spelling of a normal-form agnostic name ('C', 'C++', 'B-'); None if the name is not normal form."""
    if not name or name[0] not in 'ABCDEFG':
        return None
    acc = name[1:]
    if acc and (set(acc) - {'+'}) and (set(acc) - {'-'}):
        return None
    alt = len(acc) if acc.startswith('+') else -len(acc)
    return spell(name[0], alt, octave)


GK_CLEFS = ['*clefG2', '*clefG2', '*clefF4', '*clefF3', '*clefC1', '*clefC2', '*clefC3', '*clefC4', '*clefGv2', '*clefG^2', '*clefGvv2', '*clefFv4', '*clefC^3']


class C16:
    PROPERTY = 'C16'
    TIERS = {
        'quick': {'runs': 539 * 100, 'wall_cap_s': 300, 'chunk': 77, 'opt_leg_runs': 1617},
        'thorough': {'runs': 539 * 2500, 'wall_cap_s': 1500, 'chunk': 539, 'opt_leg_runs': 6468},
    }
    RULE = ('run i has primary spelling GRID[i % 539] (7 letters x 7 alterations x 11 octaves, so every 539 consecutive runs '
            'visit the whole grid); a seeded history of 8..30 operations on shared codec objects and a pool of pitch objects: '
            'import, export, export again later, re-import of an export, direct construction + export, edits through the public setters '
            '(and rejected edits), American export, '
            'attribute reads, to_transposed, plus (fault-injecting configuration) invalid spellings/arguments and exports '
            'interrupted at a seeded line event. Non-trivial: the primary object was exported at least twice with other '
            'operations in between. Distinct: digest of (primary spelling, operation-kind sequence).')
    DISTINCT_MEASURE = 'distinct (primary spelling, operation-kind sequence) digests among non-trivial runs'
    COMPONENTS = {'real': ['kernpy.core.pitch_models (HumdrumPitchImporter, HumdrumPitchExporter, AmericanPitchExporter, AgnosticPitch)',
                           'kernpy.core.transposer constants'],
                  'stub': []}
    ASSUMPTIONS = ['the spelling model (letter, alteration, octave) <-> text is written from the Humdrum rule in the property statement',
                   'objects returned by to_transposed are modelled by the same call on a fresh equal object (reference path)',
                   'seeded search samples histories; only the 539-spelling grid is covered exhaustively']
    PROBES = ['export_repeated', 'reimport', 'bad_call_then_valid', 'interrupt_delivered', 'direct_construct_export', 'triple_alteration',
              'octave_extreme', 'edited_through_setters', 'reentrant_callback_delivered', 'cold_first_export_interrupted', 'used_from_a_new_thread', 'graphic_export_of_a_pool_object', 'pool_object_from_the_american_importer', 'name_in_sharp_notation']

    # ---------------------------------------------------------------- plan
    def gen_plan(self, seed: int, index: int, tier: str) -> dict:
        st = seeds.Streams(seed, self.PROPERTY, index)
        rng, frng = st['ops'], st['faults']
        primary = GRID[index % len(GRID)]
        hist = index // len(GRID)
        faulty = (hist % 2 == 1)
        ops = [{'op': 'imp', 's': spell(*primary)}]
        if index % self.TIERS[tier]['chunk'] == 0:
            # the first run of a chunk executes in a process image that has never exported a pitch: interrupt the very first
            # export at an absolute line event (no dry run - that would be the first export), then carry on as usual
            ops.append({'op': 'int_exp', 'o': 0, 'k_abs': 1 + st['faults'].randrange(400), 'payload': st['faults'].choice(['SimInterrupt', 'MemoryError'])})
        n_mid = rng.randint(1, 10)

        def rand_ops(n):
            out = []
            for _ in range(n):
                kind = seeds.weighted(rng, [('imp', 4), ('new', 3), ('exp', 5), ('exp_am', 2), ('read', 3), ('tr', 2), ('reimp', 2),
                                            ('exp0', 2), ('set', 2.5), ('thread', 0.5), ('exp_gk', 1.5), ('imp_am', 0.8)])
                if kind == 'imp':
                    out.append({'op': 'imp', 's': spell(*rng.choice(GRID))})
                elif kind == 'imp_am':
                    # the pool object comes from the OTHER importer (American notation, sharps only: its flats are not usable today)
                    l, a, o = rng.choice([g for g in GRID if g[1] >= 0 and 0 <= g[2] <= 9])
                    out.append({'op': 'imp_am', 's': l.upper() + '#' * a + str(o), 'name': model_name(l, a), 'oct': o})
                    out.append({'op': 'exp', 'o': -1})
                elif kind == 'new':
                    l, a, o = rng.choice(GRID)
                    # the documented '#' notation for sharps is as good a name as '+'
                    out.append({'op': 'new', 'name': model_name(l, a), 'oct': o, 'sharp': rng.random() < 0.3})
                elif kind == 'exp':
                    out.append({'op': 'exp', 'o': rng.randrange(64)})
                elif kind == 'exp0':
                    out.append({'op': 'exp', 'o': 0})
                elif kind == 'exp_am':
                    out.append({'op': 'exp_am', 'o': rng.randrange(64)})
                elif kind == 'exp_gk':
                    # a third reader of the same objects: the graphic (staff position) exporter, under common and rare clefs
                    out.append({'op': 'exp_gk', 'o': rng.randrange(64), 'clef': rng.choice(GK_CLEFS)})
                    if rng.random() < 0.6:
                        out.append({'op': 'exp', 'o': out[-1]['o']})
                elif kind == 'read':
                    out.append({'op': 'read', 'o': rng.randrange(64), 'what': rng.choice(['chroma', 'acc', 'hash', 'eq', 'str', 'lt'])})
                elif kind == 'tr':
                    out.append({'op': 'tr', 'o': rng.randrange(64), 'iv': rng.choice(INTERVALS), 'dir': rng.choice(['up', 'down'])})
                elif kind == 'reimp':
                    out.append({'op': 'reimp', 'o': rng.randrange(64)})
                elif kind == 'thread':
                    # the same codec objects used from a BRAND-NEW thread, started and joined at once (no concurrency: thread
                    # identity is an environment dimension, e.g. for threading.local state, not a schedule)
                    out.append({'op': 'thread', 'o': rng.choice([0, rng.randrange(64)]), 's': spell(*rng.choice(GRID))})
                elif kind == 'set':
                    # the pitch object is mutable through its public setters: edit it to another grid value
                    l, a, o = rng.choice(GRID)
                    what = rng.choice(['name', 'octave', 'both'])
                    out.append({'op': 'set', 'o': rng.choice([0, rng.randrange(64)]), 'what': what, 'name': model_name(l, a), 'oct': o,
                                'sharp': rng.random() < 0.3})
                    if rng.random() < 0.6:
                        out.append({'op': 'exp', 'o': out[-1]['o']})
                if faulty and frng.random() < 0.12:
                    # re-entrancy: while one factory-made codec object is inside a call, a callback (signal handler, finalizer)
                    # uses ANOTHER factory-made codec object for another pitch
                    out.append({'op': 'reenter', 'what': frng.choice(['imp', 'imp', 'exp']), 's': spell(*frng.choice(GRID)), 'inner': spell(*frng.choice(GRID)),
                                'k_u': frng.randrange(1 << 30)})
                if faulty and frng.random() < 0.3:
                    fk = seeds.weighted(frng, [('bad_imp', 4), ('bad_new', 2), ('int_exp', 4), ('bad_set', 3)])
                    if fk == 'bad_set':
                        l, a, o = frng.choice(GRID)
                        bad = frng.choice([('name', l.upper() + '++++'), ('name', l.upper() + '----'), ('name', 'H'), ('name', 'X+'), ('name', ''),
                                           ('octave', 'x'), ('octave', 4.5), ('octave', None), ('name', l.upper() + '+-+-+')])
                        out.append({'op': 'bad_set', 'o': frng.choice([0, frng.randrange(64)]), 'attr': bad[0], 'value': bad[1]})
                        if frng.random() < 0.7:
                            out.append({'op': 'exp', 'o': out[-1]['o']})
                        continue
                    if fk == 'bad_imp':
                        out.append({'op': 'bad_imp', 's': frng.choice(BAD_SPELLINGS)})
                    elif fk == 'bad_new':
                        n, o = frng.choice(BAD_NEW)
                        out.append({'op': 'bad_new', 'name': n, 'oct': o})
                    else:
                        out.append({'op': 'int_exp', 'o': frng.randrange(64), 'k_u': frng.randrange(1 << 30),
                                    'payload': frng.choice(['SimInterrupt', 'MemoryError'])})
            return out

        ops += rand_ops(n_mid)
        ops.append({'op': 'exp', 'o': 0})
        ops += rand_ops(rng.randint(1, 8))
        ops.append({'op': 'exp', 'o': 0})
        ops.append({'op': 'reimp', 'o': 0})
        ops.append({'op': 'new', 'name': model_name(primary[0], primary[1]), 'oct': primary[2]})
        ops.append({'op': 'exp', 'o': -1})
        ops += rand_ops(rng.randint(0, 4))
        ops.append({'op': 'exp', 'o': -1})
        ops.append({'op': 'exp', 'o': 0})
        return {'property': self.PROPERTY, 'config': 'fault_injecting' if faulty else 'fault_free',
                'primary': list(primary), 'ops': ops, 'warnings': 'error' if st['env'].random() < 0.1 else 'default',
                # second interpreter-environment knob: the application has switched logging to DEBUG (logging.basicConfig(level=DEBUG))
                'logging': 'DEBUG' if st['env'].random() < 0.1 else 'default',
                # third knob: sys.stderr is a closed stream (daemon, `2>&-`): nothing in a codec call may depend on writing to it
                'stderr': 'closed' if st['env'].random() < 0.06 else 'default'}

    def summarize(self, plan):
        return {'config': plan['config'], 'primary': spell(*plan['primary']), 'ops': plan['ops']}

    # ---------------------------------------------------------------- execution
    def execute(self, plan: dict) -> dict:
        import warnings
        with warnings.catch_warnings():
            # interpreter environment knob: 10% of the runs treat every warning as an error (python -W error)
            warnings.simplefilter('error' if plan.get('warnings') == 'error' else 'ignore')
            with debug_logging(plan.get('logging') == 'DEBUG'), closed_stderr(plan.get('stderr') == 'closed'):
                return self._execute(plan)

    def _execute(self, plan: dict) -> dict:
        import kernpy as kp
        log = EventLog()
        viol = []
        faults, probes = {}, {}

        def bump(d, k, n=1):
            d[k] = d.get(k, 0) + n

        importer = kp.HumdrumPitchImporter()
        exporter = kp.HumdrumPitchExporter()
        american = kp.AmericanPitchExporter()
        pool = []      # live AgnosticPitch objects
        model = []     # (name, octave) per pool object
        first_export = {}   # pool index -> first exported string
        exported_at = {}    # pool index -> op number of last export
        after_fault = False

        def add_v(cls, sig, seq, expected, actual, **detail):
            viol.append({'class': cls, 'signature': sig, 'seq': seq, 'expected': expected, 'actual': actual, 'detail': detail})

        def state(o):
            try:
                return [norm_name(o.name), o.octave]
            except Exception as e:  # a pitch object that cannot even be read is an altered object
                return ['<unreadable>', type(e).__name__]

        def norm_name(name):
            # letter + alteration in one canonical text, whatever accidental signs the representation uses ('+'/'#', '-'/'b')
            if not isinstance(name, str) or not name:
                return name
            alt = name.count('+') + name.count('#') - name[1:].count('-') - name[1:].count('b')
            return name[0].upper() + ('+' * alt if alt > 0 else '-' * (-alt))

        class _Skip(Exception):
            pass

        def replica_of(j):
            """A fresh object equal to the model of pool object j (reference path). If even that raises, it is a violation."""
            try:
                return kp.AgnosticPitch(*model[j])
            except Exception as e:
                add_v('construct-raised', 'construct-raised/replica', log.seq, 'a pitch object for ' + repr(list(model[j])), type(e).__name__, name=model[j][0])
                raise _Skip()

        def check_pool(seq, opkind, touched):
            for j, o in enumerate(pool):
                got = state(o)
                if got != list(model[j]):
                    who = 'self' if j == touched else 'other'
                    add_v('object-altered', f'object-altered/by={opkind}/{who}', seq, list(model[j]), got,
                          op=opkind, pool_index=j, touched=touched)
                    # re-sync the model so one alteration is reported once, not after every later op
                    if got[0] != '<unreadable>':
                        model[j] = (got[0], got[1])

        for n, op in enumerate(plan['ops']):
          try:
              kind = op['op']
              touched = None
              if kind == 'reenter':
                  from kernpy.core.pitch_models import PitchImporterFactory, PitchExporterFactory
                  inj = intr.injector(kernpy_src())
                  inner_res = {}
                  if op['what'] == 'imp':
                      mine, other, dry = PitchImporterFactory.create('kern'), PitchImporterFactory.create('kern'), PitchImporterFactory.create('kern')
                      total = inj.count_events(lambda: dry.import_pitch(op['s']))
                      if total <= 0:
                          continue

                      def cb():
                          inner_res['v'] = self._call(lambda: state(other.import_pitch(op['inner'])))
                      delivered, out = inj.run_with_callback(lambda: mine.import_pitch(op['s']), 1 + op['k_u'] % total, cb)
                      got = state(out[1]) if out[0] == 'ok' else 'raised ' + type(out[1]).__name__
                      want, want_inner = list(self._model_of_spelling(op['s'])), list(self._model_of_spelling(op['inner']))
                  else:
                      mine, other, dry = PitchExporterFactory.create('kern'), PitchExporterFactory.create('kern'), PitchExporterFactory.create('kern')
                      ma, mb = self._model_of_spelling(op['s']), self._model_of_spelling(op['inner'])
                      try:
                          pa, pb, pd = kp.AgnosticPitch(*ma), kp.AgnosticPitch(*mb), kp.AgnosticPitch(*ma)
                      except Exception:
                          continue
                      total = inj.count_events(lambda: dry.export_pitch(pd))
                      if total <= 0:
                          continue

                      def cb():
                          inner_res['v'] = self._call(lambda: other.export_pitch(pb))
                      delivered, out = inj.run_with_callback(lambda: mine.export_pitch(pa), 1 + op['k_u'] % total, cb)
                      got = out[1] if out[0] == 'ok' else 'raised ' + type(out[1]).__name__
                      want, want_inner = op['s'], op['inner']
                  seq = log.emit('fault', 'reenter:' + op['what'], [op['s'], op['inner']], [got, inner_res.get('v')])
                  bump(faults, 'reentrant_callback')
                  if delivered:
                      bump(probes, 'reentrant_callback_delivered')
                      if got != want:
                          add_v('reentrancy', 'reentrancy/outer-' + op['what'], seq, want, got, outer=op['s'], inner=op['inner'])
                      if inner_res.get('v') != want_inner:
                          add_v('reentrancy', 'reentrancy/inner-' + op['what'], seq, want_inner, inner_res.get('v'), outer=op['s'], inner=op['inner'])
                  check_pool(log.seq, 'reenter', None)
                  continue
              if kind == 'thread':
                  if not pool:
                      continue
                  import threading
                  touched = op['o'] % len(pool)
                  box = {}

                  def work():
                      box['exp'] = self._call(lambda: exporter.export_pitch(pool[touched]))
                      box['exp_new'] = self._call(lambda: kp.HumdrumPitchExporter().export_pitch(pool[touched]))
                      box['imp'] = self._call(lambda: state(importer.import_pitch(op['s'])))
                  t = threading.Thread(target=work)
                  t.start()
                  t.join()
                  seq = log.emit('client', 'thread', [touched, op['s']], [box.get('exp'), box.get('imp')])
                  bump(probes, 'used_from_a_new_thread')
                  want = spell_from_name(*model[touched])
                  for key in ('exp', 'exp_new'):
                      if want is not None and box.get(key) != want:
                          add_v('export-wrong', 'export-wrong/in-new-thread', seq, want, box.get(key), pool_index=touched, which=key)
                  if box.get('imp') != list(self._model_of_spelling(op['s'])):
                      add_v('import-wrong', 'import-wrong/in-new-thread', seq, list(self._model_of_spelling(op['s'])), box.get('imp'), spelling=op['s'])
                  check_pool(log.seq, 'thread', touched)
                  continue
              if kind in ('exp', 'exp_am', 'exp_gk', 'read', 'tr', 'reimp', 'int_exp', 'set', 'bad_set'):
                  if not pool:
                      continue
                  touched = op['o'] % len(pool)
              if kind == 'imp':
                  s = op['s']
                  try:
                      o = importer.import_pitch(s)
                  except Exception as e:
                      seq = log.emit('client', 'imp', s, 'raised ' + type(e).__name__)
                      add_v('import-raised', 'import-raised', seq, 'a pitch object', type(e).__name__, spelling=s)
                      continue
                  seq = log.emit('client', 'imp', s, state(o))
                  exp_model = self._model_of_spelling(s)
                  if state(o) != list(exp_model):
                      add_v('import-wrong', 'import-wrong' + ('/after-bad-call' if after_fault else ''), seq, list(exp_model), state(o), spelling=s)
                  pool.append(o)
                  model.append((o.name, o.octave) if state(o)[0] != '<unreadable>' else exp_model)
                  if abs(exp_model[0].count('+') - exp_model[0].count('-')) == 3:
                      bump(probes, 'triple_alteration')
                  if exp_model[1] in (-1, 9):
                      bump(probes, 'octave_extreme')
                  if after_fault:
                      bump(probes, 'bad_call_then_valid')
                  after_fault = False
              elif kind == 'imp_am':
                  try:
                      o = kp.AmericanPitchImporter().import_pitch(op['s'])
                  except Exception as e:
                      seq = log.emit('client', 'imp_am', op['s'], 'raised ' + type(e).__name__)
                      add_v('import-raised', 'import-raised/american', seq, 'a pitch object', type(e).__name__, spelling=op['s'])
                      continue
                  seq = log.emit('client', 'imp_am', op['s'], state(o))
                  if state(o) != [op['name'], op['oct']]:
                      add_v('import-wrong', 'import-wrong/american', seq, [op['name'], op['oct']], state(o), spelling=op['s'])
                  pool.append(o)
                  model.append((op['name'], op['oct']))
                  bump(probes, 'pool_object_from_the_american_importer')
              elif kind == 'new':
                  try:
                      o = kp.AgnosticPitch(op['name'].replace('+', '#') if op.get('sharp') else op['name'], op['oct'])
                      if op.get('sharp') and '+' in op['name']:
                          bump(probes, 'name_in_sharp_notation')
                  except Exception as e:
                      seq = log.emit('client', 'new', [op['name'], op['oct']], 'raised ' + type(e).__name__)
                      add_v('construct-raised', 'construct-raised', seq, 'a pitch object', type(e).__name__, name=op['name'])
                      continue
                  seq = log.emit('client', 'new', [op['name'], op['oct']], state(o))
                  if state(o) != [op['name'], op['oct']]:
                      add_v('construct-wrong', 'construct-wrong', seq, [op['name'], op['oct']], state(o))
                  pool.append(o)
                  model.append((op['name'], op['oct']))
                  bump(probes, 'direct_construct_export')
              elif kind == 'exp':
                  o = pool[touched]
                  want = spell_from_name(*model[touched])
                  try:
                      got = exporter.export_pitch(o)
                  except Exception as e:
                      got = 'raised ' + type(e).__name__
                  seq = log.emit('client', 'exp', touched, got)
                  if want is not None and got != want:
                      rep = touched in first_export
                      add_v('export-wrong', 'export-wrong/' + ('repeat' if rep else 'first'), seq, want, got,
                            pool_index=touched, model=list(model[touched]), first=first_export.get(touched))
                  if touched in first_export:
                      if exported_at[touched] < n - 1:
                          bump(probes, 'export_repeated')
                      if got != first_export[touched]:
                          add_v('export-not-repeatable', 'export-not-repeatable', seq, first_export[touched], got, pool_index=touched)
                  else:
                      first_export[touched] = got
                  exported_at[touched] = n
              elif kind == 'int_exp':
                  o = pool[touched]
                  inj = intr.injector(kernpy_src())
                  if 'k_abs' in op:
                      k = op['k_abs']              # cold start: no dry run (it would be the process's first export)
                      bump(probes, 'cold_first_export_interrupted')
                  else:
                      replica = replica_of(touched)
                      total = inj.count_events(lambda: exporter.export_pitch(replica))
                      if total <= 0:
                          continue
                      k = 1 + op['k_u'] % total
                  delivered, out = inj.run(lambda: exporter.export_pitch(o), k, op['payload'])
                  seq = log.emit('fault', 'int_exp', [touched, k, op['payload']], [delivered, out[0]])
                  bump(faults, 'interrupt_' + op['payload'])
                  if delivered:
                      bump(probes, 'interrupt_delivered')
                  # the interrupted call may raise; it may never RETURN NORMALLY with wrong data (DESIGN 3.6)
                  if out[0] == 'ok':
                      want = spell_from_name(*model[touched])
                      bump(probes, 'interrupted_call_returned_normally')
                      if want is not None and out[1] != want:
                          add_v('export-wrong', 'export-wrong/returned-normally-after-injected-' + op['payload'], seq, want, out[1], pool_index=touched)
                  after_fault = True
                  kind = 'interrupted-exp'
              elif kind == 'exp_gk':
                  o = pool[touched]
                  fresh = replica_of(touched)
                  got = self._call(lambda: kp.pitch_to_gkern_string(o, kp.ClefFactory.create_clef(op['clef'])))
                  ref = self._call(lambda: kp.pitch_to_gkern_string(fresh, kp.ClefFactory.create_clef(op['clef'])))
                  seq = log.emit('client', 'exp_gk', [touched, op['clef']], got)
                  bump(probes, 'graphic_export_of_a_pool_object')
                  if got != ref:
                      add_v('second-reader-differs', 'second-reader-differs/gkern', seq, ref, got, pool_index=touched, clef=op['clef'])
              elif kind == 'exp_am':
                  o = pool[touched]
                  fresh = replica_of(touched)
                  got = self._call(lambda: american.export_pitch(o))
                  ref = self._call(lambda: kp.AmericanPitchExporter().export_pitch(fresh))
                  seq = log.emit('client', 'exp_am', touched, got)
                  if got != ref:
                      add_v('second-reader-differs', 'second-reader-differs', seq, ref, got, pool_index=touched)
              elif kind == 'read':
                  o = pool[touched]
                  fresh = replica_of(touched)
                  w = op['what']
                  fn = {'chroma': lambda p: p.get_chroma(), 'acc': lambda p: p.accidentals(), 'hash': lambda p: hash(p) == hash(kp.AgnosticPitch(*model[touched])),
                        'eq': lambda p: (p == kp.AgnosticPitch(*model[touched]), p != kp.AgnosticPitch(*model[touched])), 'str': lambda p: str(p),
                        'lt': lambda p: (p < pool[0], p > pool[0])}[w]
                  got = self._call(lambda: fn(o))
                  ref = self._call(lambda: fn(fresh)) if w != 'lt' else got
                  seq = log.emit('client', 'read:' + w, touched, got)
                  if got != ref:
                      add_v('read-differs-from-fresh', f'read-differs-from-fresh/{w}', seq, ref, got, pool_index=touched)
              elif kind == 'tr':
                  o = pool[touched]
                  fresh = replica_of(touched)
                  from kernpy.core.transposer import IntervalsByName
                  iv = IntervalsByName[op['iv']]
                  ref = self._call(lambda: state(kp.AgnosticPitch.to_transposed(fresh, iv, op['dir'])))
                  try:
                      r = kp.AgnosticPitch.to_transposed(o, iv, op['dir'])
                      got = state(r)
                  except Exception as e:
                      r, got = None, 'raised ' + type(e).__name__
                  seq = log.emit('client', 'tr', [touched, op['iv'], op['dir']], got)
                  if got != ref:
                      add_v('transposed-differs-from-fresh', 'transposed-differs-from-fresh', seq, ref, got, pool_index=touched)
                  if r is not None:
                      if r is o:
                          add_v('transposed-not-new-object', 'transposed-not-new-object', seq, 'a new object', 'the argument itself')
                      elif len(pool) < 48:
                          pool.append(r)
                          model.append((got[0], got[1]))
              elif kind == 'reimp':
                  want = spell_from_name(*model[touched])
                  if want is None:
                      continue
                  try:
                      o2 = importer.import_pitch(want)
                      got = state(o2)
                  except Exception as e:
                      o2, got = None, 'raised ' + type(e).__name__
                  seq = log.emit('client', 'reimp', [touched, want], got)
                  bump(probes, 'reimport')
                  if got != list(model[touched]):
                      add_v('import-wrong', 'import-wrong/reimport' + ('/after-bad-call' if after_fault else ''), seq, list(model[touched]), got, spelling=want)
                  if o2 is not None and len(pool) < 48:
                      pool.append(o2)
                      model.append((o2.name, o2.octave))
                  after_fault = False
              elif kind == 'set':
                  o = pool[touched]
                  want = [op['name'] if op['what'] in ('name', 'both') else model[touched][0], op['oct'] if op['what'] in ('octave', 'both') else model[touched][1]]
                  try:
                      if op['what'] in ('name', 'both'):
                          o.name = op['name'].replace('+', '#') if op.get('sharp') else op['name']
                      if op['what'] in ('octave', 'both'):
                          o.octave = op['oct']
                      got = state(o)
                  except Exception as e:
                      got = 'raised ' + type(e).__name__
                  seq = log.emit('client', 'set', [touched, op['what'], op['name'], op['oct']], got)
                  bump(probes, 'edited_through_setters')
                  if got != want:
                      add_v('setter-wrong', 'setter-wrong', seq, want, got, pool_index=touched)
                  if isinstance(got, list):
                      model[touched] = (got[0], got[1])
                  # every alias of this object in the pool is the same object: keep their models in step
                  for j, other in enumerate(pool):
                      if other is o:
                          model[j] = model[touched]
                          first_export.pop(j, None)
                          exported_at.pop(j, None)
              elif kind == 'bad_set':
                  o = pool[touched]
                  try:
                      setattr(o, op['attr'], op['value'])
                      got = 'accepted'
                  except Exception as e:
                      got = 'raised ' + type(e).__name__
                  seq = log.emit('fault', 'bad_set', [touched, op['attr'], op['value']], got)
                  bump(faults, 'rejected_edit')
                  after_fault = True
                  if got == 'accepted':
                      # not C16's business whether this value is rejected; follow the object
                      st_now = state(o)
                      for j, other in enumerate(pool):
                          if other is o and st_now[0] != '<unreadable>':
                              model[j] = (st_now[0], st_now[1])
                              first_export.pop(j, None)
                              exported_at.pop(j, None)
                  # a rejected edit must leave the object as it was: checked by the pool invariant below and by the next export
              elif kind == 'bad_imp':
                  got = self._call(lambda: state(importer.import_pitch(op['s'])))
                  seq = log.emit('fault', 'bad_imp', op['s'], got)
                  bump(faults, 'invalid_spelling')
                  after_fault = True
              elif kind == 'bad_new':
                  got = self._call(lambda: state(kp.AgnosticPitch(op['name'], op['oct'])))
                  seq = log.emit('fault', 'bad_new', [op['name'], op['oct']], got)
                  bump(faults, 'invalid_constructor_args')
                  after_fault = True
              else:
                  raise ValueError(f'unknown op {kind}')
              check_pool(log.seq, kind, touched)

          except _Skip:
            continue
        kinds = [o['op'] for o in plan['ops']]
        nontrivial = probes.get('export_repeated', 0) > 0
        return {'digest': log.digest(), 'events': log.seq, 'faults': faults, 'probes': probes,
                'shape': digest_of([plan.get('primary'), kinds]), 'nontrivial': nontrivial, 'config': plan['config'],
                'hash_sensitive': any(o['op'] in ('int_exp', 'reenter') for o in plan['ops']),
                'violations': viol, 'extra': {'primary': GRID.index(tuple(plan['primary'])) if tuple(plan['primary']) in GRID else -1}}

    @staticmethod
    def _call(fn):
        try:
            return fn()
        except Exception as e:
            return 'raised ' + type(e).__name__

    @staticmethod
    def _model_of_spelling(s: str):
        body = s.rstrip('#-')
        acc = s[len(body):]
        letter = body[0]
        octave = 3 + len(body) if letter.islower() else 4 - len(body)
        alt = len(acc) if acc.startswith('#') else -len(acc)
        return (model_name(letter, alt), octave)

    # ---------------------------------------------------------------- minimisation
    def shrink(self, plan, still_fails, budget):
        def with_ops(ops):
            p = dict(plan)
            p['ops'] = ops
            return p
        ops = ddmin_list(plan['ops'], lambda ops: still_fails(with_ops(ops)), budget, min_len=1)
        return with_ops(ops)

    # ---------------------------------------------------------------- known-finding matchers
    MATCHERS = {}

    def reduce_extra(self, extras):
        return sorted({e.get('primary', -1) for e in extras})

    def evidence_extra(self, reduced):
        prim = {p for chunk in reduced for p in chunk}
        prim.discard(-1)
        return {'exhaustive_subspaces': {'spelling_grid_7x7x11': {'size': len(GRID), 'visited': len(prim), 'complete': len(prim) == len(GRID)}}}


CHECK = C16()
