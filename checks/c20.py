"""C20 - file and command-line paths equal the in-memory API  (engine: sim-fs, DESIGN 4.5).

System under simulation: the simfs tree (simkit/simfs.py), a virtual cwd, a simulated locale, an external actor,
and kernpy driven through kp.load, kp.dump, kp.kern_to_ekern, kp.ekern_to_krn and the real CLI
(kernpy.__main__.main with sys.argv set, stdout/stderr captured).  The in-memory API on the same text is the
reference model.  Frame condition after every operation: every file that is not a target of that operation is
byte-identical, and no directory appears except required parents.
"""
from __future__ import annotations

import contextlib
import io
import posixpath
import sys

from simkit import seeds, docgen
from simkit.ddmin import ddmin_list
from simkit.eventlog import EventLog, digest_of
from simkit.simfs import SimFS, PREFIX
from simkit.snapshot import doc_snapshot, errors_snapshot
from simkit import interrupt as intr
from simkit.runner import kernpy_src

WORK = PREFIX + '/work'
KERN_SUFFIXES = ['.krn', '.krn', '.kern']
EKERN_SUFFIXES = ['.ekrn', '.ekern']
LOCALES = ['utf-8', 'utf-8', 'utf-8', 'latin-1', 'cp1252', 'ascii']
NAMES = ['a', 'b', 'score', 'x.y', 'op.1.no.2', 'Ü', 'my score', '.hidden', 'c', 'a[1]', 'st*r', 'wh?t', '']
DIRS = ['', 'in', 'in/sub', 'in/sub/deep', 'data', 'in/other', 'in/.drafts', 'in/take [2]']


def universal(text: str) -> str:
    return text.replace('\r\n', '\n').replace('\r', '\n')


class C20:
    PROPERTY = 'C20'
    TIERS = {
        'quick': {'runs': 4500, 'wall_cap_s': 300, 'chunk': 30, 'opt_leg_runs': 250},
        'thorough': {'runs': 110000, 'wall_cap_s': 1500, 'chunk': 40, 'opt_leg_runs': 1000},
    }
    RULE = ('a simulated file tree (<=8 input files in nested directories; LF/CRLF/mixed/CR line ends, final newline or not, BOM, '
            'non-ASCII lyrics, suffixes .krn .kern .ekrn .ekern .txt, names with several dots) and <=10 seeded operations: load (str/Path, '
            'absolute/relative to the virtual cwd, raise_on_errors), dump with options into existing/missing/deeply missing directories '
            'and onto longer files, kern_to_ekern / ekern_to_krn, the CLI on a single file with/without --output_path and on a directory '
            'with/without -r, and the kern->ekern->kern->ekern round trip. Environment per run: read/write chunking, listing order, locale, '
            'EINTR; fault-injecting configuration adds EIO/ENOSPC at a byte or call, failing open/mkdir, an external actor (mkdir race, '
            'unlink between listing and open, unrelated create), a flipped stored byte, and interruption of a directory conversion. '
            'Non-trivial: at least one operation went through the simulated OS and was compared with the in-memory API. Distinct: digest '
            'of (operation-kind sequence, environment knobs, fault kinds planned, tree shape).')
    DISTINCT_MEASURE = 'distinct (operation sequence, chunking, locale, fault kinds, tree shape) digests'
    COMPONENTS = {'real': ['kernpy incl. kernpy.__main__ (argparse, handlers)', 'pathlib glob/rglob engine', 'os.makedirs / os.path.exists', 'csv',
                           'CPython io stack above the raw layer (TextIOWrapper, BufferedReader/Writer/Random, incremental codecs)'],
                  'stub': ['raw file object (FakeRaw)', 'os.stat/lstat/scandir/listdir/mkdir/getcwd', 'preferred-encoding lookup (locale)',
                           'the second process (external actor)']}
    ASSUMPTIONS = ['reference = in-memory API on bytes.decode("utf-8","ignore") for load/kern2ekern, and on the locale-decoded text with universal '
                   'newlines for ekern2kern (what text-mode open() hands to the API)',
                   'directory mode writes next to each input (with_suffix); --output_path is only exercised in single-file mode',
                   'under an injected errno, an un(en/de)codable character in a non-UTF-8 locale, or an actor step removing the input, the operation may '
                   'raise (or report and continue in directory mode); crash consistency of a half-written target is NOT asserted',
                   'EINTR, short counts, listing order and the mkdir race are not excuses: the result must be exact']
    PROBES = ['chunk_split_multibyte', 'chunk_split_crlf', 'short_write', 'short_read', 'fault_enospc_write', 'fault_eio_read', 'fault_eintr_read',
              'fault_eintr_write', 'actor_mkdir_race', 'target_preexisting_truncated', 'dir_mode_one_input_failed', 'dir_mode_nested_skipped_without_r',
              'listing_order_non_sorted', 'locale_cannot_encode', 'relative_path_via_virtual_cwd', 'roundtrip_checked', 'actor_unlink',
              'interrupt_delivered', 'load_equal_checked', 'dump_equal_checked', 'converter_equal_checked', 'bom_input', 'crlf_input',
              'flipped_byte_input', 'rerun_after_fault_exact', 'edited_in_place_same_size', 'big_input_over_24k', 'output_is_the_input_file', 'blank_line_in_input', 'dumped_a_loaded_document', 'output_directory_removed_externally',
              'non_nfc_input', 'stdout_cannot_encode_progress_line', 'header_only_input', 'input_of_exactly_one_buffer', 'cell_over_csv_field_limit', 'dir_mode_with_output_path', 'target_holds_same_text_with_crlf', 'symlink_among_the_inputs']

    # ================================================================ plan
    def gen_plan(self, seed, index, tier):
        st = seeds.Streams(seed, self.PROPERTY, index)
        drng, rng, frng, erng = st['doc'], st['ops'], st['faults'], st['env']
        faulty = erng.random() < 0.45
        klass = seeds.weighted(erng, [('core', 6), ('dotted', 1.2), ('combining', 1.0), ('quote', 0.8), ('uls', 0.8)])
        ndocs = drng.randint(1, 3)
        docs = []
        for _ in range(ndocs):
            F = docgen.swarm_features(drng, combining_sigs=(klass == 'combining'), quote_cells=(klass == 'quote'), uls_cells=(klass == 'uls'),
                                      notelike_nonkern=False)
            F['dotted'] = (klass == 'dotted')
            if klass in ('quote', 'uls'):
                F['nonascii'] = True
            d = docgen.gen_doc(drng, F, max_spines=3, max_rows=14, kern_only=(drng.random() < 0.35))
            if klass in ('quote', 'uls') and '**text' not in d.headers:
                # make sure the special cells have a lyrics spine to live in
                d = docgen.gen_doc(drng, F, max_spines=3, max_rows=14)
            docs.append(d.to_json())
        fsplan = {'io_seed': erng.randrange(1 << 30), 'chunking': erng.choice(['whole', 'tiny', 'small', 'mixed', 'mixed']),
                  'locale': erng.choice(LOCALES), 'shuffle_listing': erng.random() < 0.8, 'faults': [], 'actor': [],
                  'mtime': erng.choice(['frozen', 'frozen', 'ticking'])}
        cwd = erng.choice([WORK, WORK, WORK + '/in', PREFIX])
        ops = []
        inputs = []     # (path, kind, doc index)
        used = set()
        nfiles = rng.randint(1, 6)
        for _ in range(nfiles):
            d = rng.choice(DIRS)
            suffix = seeds.weighted(rng, [('.krn', 5), ('.kern', 2), ('.txt', 1), ('.KRN', 0.3)])
            name = rng.choice(NAMES)
            path = posixpath.join(WORK, d, name + suffix)
            stem_key = posixpath.join(WORK, d, name)
            if stem_key in used:
                continue        # two inputs with one stem in one directory would convert onto the same output file
            used.add(stem_key)
            kind = seeds.weighted(rng, [('kern', 8), ('garbage', 0.7), ('with_error', 0.9), ('empty', 0.3), ('big', 0.5), ('block_edge', 0.5), ('header_only', 0.3), ('huge_cell', 0.25)])
            di = rng.randrange(ndocs)
            eol = seeds.weighted(rng, [('\n', 5), ('\r\n', 3), ('mixed', 1), ('\r', 0.7)])
            op = {'op': 'put', 'path': path, 'doc': di, 'kind': kind, 'eol': eol, 'final_newline': rng.random() < 0.75, 'bom': rng.random() < 0.06,
                  'flip': None, 'blank': sorted(rng.randrange(1, 12) for _ in range(rng.choice([1, 1, 2]))) if rng.random() < 0.08 else []}
            if faulty and frng.random() < 0.12:
                op['flip'] = [frng.randrange(1 << 20), frng.choice([0xFF, 0xC3, 0x80, 0xE2, 0xF0, 0x00])]
            ops.append(op)
            inputs.append((path, kind, di))
        kern_inputs = [p for p, k, _ in inputs if p.endswith(('.krn', '.kern'))]
        lrng = st['links']                  # own stream: the draws above and below are unchanged
        if kern_inputs and lrng.random() < 0.12:
            # a symbolic link to one of the inputs, in another directory: directory-mode conversions find it by its own name and
            # write their output next to the LINK (the CLI's contract is about the path as found), reading the target's content
            tgt = lrng.choice(kern_inputs)
            ldir = lrng.choice([d for d in ('in', 'in/sub', 'data', 'in/other') if posixpath.join(WORK, d) != posixpath.dirname(tgt)])
            lpath = posixpath.join(WORK, ldir, 'lnk' + lrng.choice(['.krn', '.kern']))
            ops.append({'op': 'symlink', 'path': lpath,
                        'target': posixpath.relpath(tgt, posixpath.dirname(lpath)) if lrng.random() < 0.6 else tgt})
        n_ops = rng.randint(2, 8)

        def as_given(path):
            # absolute, or relative to the virtual cwd when possible
            if rng.random() < 0.35 and path.startswith(cwd + '/'):
                return path[len(cwd) + 1:]
            return path

        produced_ekern = []
        for _ in range(n_ops):
            kind = seeds.weighted(rng, [('load', 4), ('dump', 4), ('k2e', 2), ('e2k', 1.5), ('cli_single', 3), ('cli_dir', 3.5), ('roundtrip', 2.5),
                                        ('cli_interrupt', 1.2 if faulty else 0)])
            if kind == 'load':
                p = rng.choice(inputs)[0] if rng.random() < 0.93 else posixpath.join(WORK, 'missing.krn')
                ops.append({'op': 'load', 'path': as_given(p), 'pathtype': rng.choice(['str', 'Path']), 'raise_on_errors': rng.random() < 0.25,
                            'deprecated_api': rng.random() < 0.15})
                if rng.random() < 0.3 and p.startswith(WORK):
                    # the user edits a note of the file in place (same byte length, possibly within the same second) and loads it again
                    ops.append({'op': 'edit', 'path': p, 'u': rng.randrange(1 << 20)})
                    ops.append(dict(ops[-2]))
            elif kind == 'dump':
                tdir = rng.choice(['out', 'out/new', 'out/a/b/c', 'in', '', 'in/sub'])
                target = posixpath.join(WORK, tdir, rng.choice(['o', 'res', 'x.y']) + rng.choice(['.krn', '.ekrn', '.txt']))
                if rng.random() < 0.15 and inputs:
                    target = rng.choice(inputs)[0] + '.out'
                opts = self._gen_opts(rng)
                ops.append({'op': 'dump', 'doc': rng.randrange(ndocs), 'path': as_given(target), 'pathtype': rng.choice(['str', 'Path']), 'opts': opts,
                            'prefill': rng.random() < 0.25,
                            # the document is sometimes the one load() returned for an input file (whatever line ends that file has)
                            'from_load': rng.choice(kern_inputs) if kern_inputs and rng.random() < 0.3 else None})
                if tdir.startswith('out') and rng.random() < 0.2:
                    # someone removes the output directory; the next dump into it must create it again
                    ops.append({'op': 'rmtree', 'dir': posixpath.join(WORK, 'out')})
                    ops.append(dict(ops[-2], prefill=False))
            elif kind == 'k2e' and kern_inputs:
                src = rng.choice(kern_inputs)
                out = posixpath.join(WORK, rng.choice(['out', 'in', 'conv']), posixpath.basename(src).rsplit('.', 1)[0] + rng.choice(EKERN_SUFFIXES))
                ops.append({'op': 'k2e', 'in': as_given(src), 'out': as_given(out), 'premkdir': True, 'prefill': rng.random() < 0.25})
                produced_ekern.append(out)
            elif kind == 'e2k':
                if produced_ekern and rng.random() < 0.7:
                    src = rng.choice(produced_ekern)
                else:
                    # a user-provided ekern file: written by the harness from the API's own ekern export
                    src = posixpath.join(WORK, 'in', 'given' + str(len(ops)) + rng.choice(EKERN_SUFFIXES))
                    ops.append({'op': 'put_ekern', 'path': src, 'doc': rng.randrange(ndocs), 'eol': rng.choice(['\n', '\n', '\r\n'])})
                out = posixpath.join(WORK, rng.choice(['out', 'conv']), 'back' + str(len(ops)) + '.krn')
                ops.append({'op': 'e2k', 'in': as_given(src), 'out': as_given(out), 'premkdir': True, 'prefill': rng.random() < 0.25})
            elif kind == 'cli_single' and produced_ekern and rng.random() < 0.5:
                src = rng.choice(produced_ekern)
                r = rng.random()
                out = None if r < 0.35 else src if r < 0.5 else posixpath.join(WORK, rng.choice(['out', 'conv']), 'clik' + str(len(ops)) + '.krn')
                ops.append({'op': 'cli', 'mode': 'e2k', 'input': as_given(src), 'output': as_given(out) if out else None, 'recursive': False,
                            'verbose': rng.choice([1, 0]), 'premkdir': True, 'prefill': False})
            elif kind == 'cli_single' and kern_inputs:
                src = rng.choice(kern_inputs)
                out = None
                if rng.random() < 0.5:
                    out = posixpath.join(WORK, rng.choice(['out', 'in']), 'cli' + str(len(ops)) + '.ekrn')
                ops.append({'op': 'cli', 'mode': 'k2e', 'input': as_given(src), 'output': as_given(out) if out else None, 'recursive': rng.random() < 0.3,
                            'verbose': rng.choice([1, 1, 0]), 'premkdir': True, 'prefill': rng.random() < 0.25})
                produced_ekern.append(out or src.rsplit('.', 1)[0] + '.ekrn')
            elif kind == 'cli_dir':
                d = rng.choice(['in', 'in', '', 'in/sub', 'data', 'nowhere'])
                mode = 'k2e' if rng.random() < 0.75 else 'e2k'
                ops.append({'op': 'cli', 'mode': mode, 'input': as_given(posixpath.join(WORK, d)) if d else as_given(WORK) if cwd != WORK else WORK,
                            'output': None, 'recursive': rng.random() < 0.55, 'verbose': rng.choice([1, 1, 0]), 'premkdir': False,
                            'prefill': rng.random() < 0.25})
                if rng.random() < 0.2:
                    # --output_path given in directory mode: it is not used there (every output goes next to its input)
                    ops[-1]['output'] = as_given(posixpath.join(WORK, rng.choice(['out', 'conv', 'in']), 'dirout' + str(len(ops)) + ('.ekrn' if mode == 'k2e' else '.krn')))
            elif kind == 'roundtrip' and kern_inputs:
                src = rng.choice(kern_inputs)
                ops.append({'op': 'roundtrip', 'in': src, 'tag': 'rt' + str(len(ops)), 'via': rng.choice(['cli', 'func'])})
            elif kind == 'cli_interrupt' and kern_inputs:
                ops.append({'op': 'cli_interrupt', 'input': posixpath.join(WORK, 'in'), 'recursive': True, 'k_u': frng.randrange(1 << 30),
                            'payload': frng.choice(['SimInterrupt', 'MemoryError'])})
        # ---- faults (fault-injecting configuration only); EINTR may appear in both configurations (it must be transparent)
        if erng.random() < 0.35:
            fsplan['faults'].append({'kind': 'eintr_read', 'at': {'call': erng.randint(1, 12)}})
        if erng.random() < 0.35:
            fsplan['faults'].append({'kind': 'eintr_write', 'at': {'call': erng.randint(1, 8)}})
        if faulty:
            for _ in range(frng.choice([1, 1, 2])):
                fk = seeds.weighted(frng, [('eio_read', 3), ('enospc_write', 3), ('eio_write', 2), ('open_error', 2.5), ('mkdir_error', 1), ('actor', 4)])
                if fk == 'eio_read':
                    fsplan['faults'].append({'kind': 'eio_read', 'at': {'call': frng.randint(1, 10)} if frng.random() < 0.5 else {'byte': frng.randint(0, 200)},
                                             'sticky': frng.random() < 0.5, 'path': frng.choice(inputs)[0] if inputs and frng.random() < 0.6 else None})
                elif fk in ('enospc_write', 'eio_write'):
                    fsplan['faults'].append({'kind': fk, 'at': {'byte': frng.randint(0, 150)}, 'sticky': fk == 'enospc_write' or frng.random() < 0.5})
                elif fk == 'open_error':
                    fsplan['faults'].append({'kind': 'open_error', 'errno': frng.choice(['EACCES', 'ENOENT', 'EISDIR', 'EMFILE']),
                                             'at': {'call': frng.randint(1, 6)}, 'mode': frng.choice(['r', 'w', None])})
                elif fk == 'mkdir_error':
                    fsplan['faults'].append({'kind': 'mkdir_error', 'at': {'call': frng.randint(1, 3)}})
                else:
                    act = seeds.weighted(frng, [('mkdir', 4), ('unlink', 3), ('create', 2)])
                    dump_dirs = sorted({posixpath.dirname(posixpath.normpath(o['path'] if o['path'].startswith('/') else posixpath.join(cwd, o['path'])))
                                        for o in ops if o['op'] == 'dump'})
                    if act == 'mkdir' and dump_dirs:
                        # the TOCTOU window of _write: the directory found missing by exists() is created before makedirs()
                        fsplan['actor'].append({'trigger': 'stat-missing', 'act': 'mkdir', 'path': frng.choice(dump_dirs)})
                    elif act == 'unlink' and kern_inputs:
                        fsplan['actor'].append({'trigger': 'listed', 'act': 'unlink', 'path': frng.choice(kern_inputs)})
                    else:
                        fsplan['actor'].append({'trigger': frng.choice(['open', 'listed', 'stat-missing']), 'act': 'create',
                                                'target': posixpath.join(WORK, 'in', 'unrelated.tmp'), 'skip': frng.randint(0, 3)})
        # (session 3) two more environment dimensions, drawn last from the env stream so that everything above is unchanged:
        #  - the encoding of the process's stdout (a terminal or pipe under LANG=C cannot take the arrow of the progress line);
        #  - input files whose non-ASCII text is NOT in Unicode normal form C (decomposed accents, Angstrom/Ohm signs).
        env2 = {'stdout': 'utf-8' if erng.random() < 0.85 else erng.choice(['ascii', 'latin-1', 'ascii', 'closed']), 'nonnfc_inputs': erng.random() < 0.15,
                'logging': 'DEBUG' if erng.random() < 0.08 else 'default',
                'warnings': 'error' if erng.random() < 0.08 else 'default'}
        return {'property': self.PROPERTY, 'config': 'fault_injecting' if faulty else 'fault_free', 'class': klass, 'fs': fsplan, 'cwd': cwd,
                'docs': docs, 'ops': ops, 'env2': env2}

    @staticmethod
    def _gen_opts(rng):
        opts = {}
        r = rng.random()
        if r < 0.35:
            return opts
        if rng.random() < 0.5:
            opts['encoding'] = rng.choice(['kern', 'ekern', 'bkern', 'bekern', 'akern', 'aekern'])
        if rng.random() < 0.3:
            opts['spine_types'] = rng.choice([['**kern'], ['**kern', '**text'], ['**text'], ['**dynam', '**harm', '**kern']])
        if rng.random() < 0.3:
            opts['include'] = rng.choice([['CORE', 'SIGNATURES', 'STRUCTURAL', 'BARLINES'], ['NOTE_REST', 'STRUCTURAL'], ['LYRICS', 'STRUCTURAL', 'BARLINES']])
        if rng.random() < 0.2:
            opts['exclude'] = rng.choice([['DECORATION'], ['DURATION'], ['BARLINES'], ['COMMENTS']])
        if rng.random() < 0.25:
            a = rng.randint(0, 3)
            opts['from_measure'] = a
            if rng.random() < 0.7:
                opts['to_measure'] = a + rng.randint(-1, 3)
        if rng.random() < 0.15:
            opts['spine_ids'] = rng.choice([[0], [0, 1], [1], [2, 0]])
        if rng.random() < 0.1:
            opts['show_measure_numbers'] = True
        return opts

    def summarize(self, plan):
        return {'class': plan['class'], 'config': plan['config'], 'fs': plan['fs'], 'cwd': plan['cwd'], 'ops': plan['ops'],
                'texts': [docgen.Doc.from_json(d).render() for d in plan['docs']]}

    # ================================================================ execution
    def execute(self, plan):
        from simkit.envknobs import debug_logging
        import warnings
        with debug_logging((plan.get('env2') or {}).get('logging') == 'DEBUG'), warnings.catch_warnings():     # the application logs at DEBUG
            # python -W error in 8% of the runs (the deprecated aliases are then not used by the workload: they warn by design)
            warnings.simplefilter('error' if (plan.get('env2') or {}).get('warnings') == 'error' else 'ignore')
            return self._execute(plan)

    def _execute(self, plan):
        import kernpy as kp
        from pathlib import Path
        log = EventLog()
        viol, faults_fired, probes = [], {}, {}
        klass = plan['class']

        def bump(d, k, n=1):
            d[k] = d.get(k, 0) + n

        def add_v(cls, sig, expected, actual, **detail):
            detail.setdefault('input_class', klass)
            viol.append({'class': cls, 'signature': sig, 'seq': log.seq, 'expected': expected, 'actual': actual, 'detail': detail})

        fs = SimFS(plan['fs'], log)
        fs.guard_root = kernpy_src() + '/kernpy'
        fs.mkdirs(WORK)
        fs.mkdirs(plan['cwd'])
        fs.cwd = plan['cwd']
        locale = plan['fs'].get('locale', 'utf-8')
        stdout_enc = (plan.get('env2') or {}).get('stdout', 'utf-8')
        self._stdout_narrow = stdout_enc != 'utf-8'
        self._stdout_enc = stdout_enc
        docs = [docgen.Doc.from_json(d) for d in plan['docs']]
        CAT = kp.TokenCategory
        ENC = {'kern': kp.Encoding.normalizedKern, 'ekern': kp.Encoding.eKern, 'bkern': kp.Encoding.bKern, 'bekern': kp.Encoding.bEkern,
               'akern': kp.Encoding.agnosticKern, 'aekern': kp.Encoding.agnosticExtendedKern}

        def real_opts(o):
            out = dict(o)
            if 'encoding' in out:
                out['encoding'] = ENC[out['encoding']]
            for k in ('include', 'exclude'):
                if k in out:
                    out[k] = {CAT[n] for n in out[k]}
            return out

        def absolute(p):
            return posixpath.normpath(p if p.startswith('/') else posixpath.join(fs.cwd, p))

        def render_bytes(op):
            d = docs[op['doc'] % len(docs)]
            if op['kind'] == 'empty':
                return b''
            if op['kind'] == 'garbage':
                text = 'this is not\ta kern file\nat all\tx\ty\n'
            else:
                lines = d.lines()
                if op['kind'] == 'huge_cell':
                    # boundary: one cell longer than csv's default field limit (131072 characters) - both readers must treat it
                    # alike, whatever either of them does with it, and whichever of them ran first in this process
                    lines = ['!!!OTL: ' + 'la' * 65600] + lines
                    bump(probes, 'cell_over_csv_field_limit')
                if op['kind'] == 'header_only':
                    # boundary: nothing but the header row (and, for every second path length, the terminators)
                    lines = lines[:1] + (['\t'.join('*-' for _ in d.headers)] if len(op['path']) % 2 else [])
                    bump(probes, 'header_only_input')
                if op['kind'] == 'block_edge':
                    # boundary: the file is exactly one I/O buffer (8192 bytes), one byte less or one byte more; the padding record
                    # ends in a multi-byte character so that the buffer edge falls next to or inside it
                    want = 8192 + (len(op['path']) % 3 - 1)
                    eolb = 2 if op['eol'] == '\r\n' else 1
                    base = sum(len(l.encode('utf-8')) + eolb for l in lines) - (0 if op['final_newline'] else eolb)
                    head = '!!!OTL@@pad: '
                    fill = want - base - len(head.encode('utf-8')) - eolb - len('歌'.encode('utf-8'))
                    if fill > 0 and op['eol'] != 'mixed' and not op.get('blank') and not op.get('bom'):
                        lines = lines + [head + 'x' * fill + '歌']
                        bump(probes, 'input_of_exactly_one_buffer')
                if op['kind'] == 'big':
                    # a file of several I/O blocks (> 3 x 8 KiB) whose padding is made of multi-byte characters, so that block
                    # boundaries of any reader fall inside characters: reference records before the header and after the end
                    pad = ['!!!OTL@@' + str(i) + ': ' + ('señor 歌 𝄞 größe ' * 6)[(i % 7):] for i in range(95)]
                    cut = max(1, len(pad) * (op['path'].__len__() % 5 + 1) // 6)
                    lines = pad[:cut] + lines + pad[cut:]
                    bump(probes, 'big_input_over_24k')
                if (plan.get('env2') or {}).get('nonnfc_inputs') and op['kind'] in ('kern', 'with_error', 'big'):
                    # non-NFC text in a reference record and, if there is a lyrics spine, appended to its first lyric
                    lines = ['!!!COM: Ange\u0301lique A\u030astro\u0308m \u212b\u2126'] + lines
                    done = False
                    for ri, r in enumerate(d.rows):
                        if r.kind == 'data' and not done and op['kind'] != 'big':
                            cells = lines[ri + 1].split('\t')
                            for ci, c in enumerate(r.cells):
                                if d.headers[c.spine] == '**text' and c.text not in ('.', '') and ci < len(cells):
                                    cells[ci] = c.text + 'e\u0301\u212b'
                                    lines[ri + 1] = '\t'.join(cells)
                                    done = True
                                    break
                    bump(probes, 'non_nfc_input')
                    off1 = 1
                else:
                    off1 = 0
                if op['kind'] == 'with_error':
                    # damage one **kern data cell so that the importer reports an error
                    for ri, r in enumerate(d.rows):
                        if r.kind in ('data', 'bar'):
                            cells = [c.text for c in r.cells]
                            ks = [i for i, c in enumerate(r.cells) if d.headers[c.spine] == '**kern']
                            if ks:
                                cells = lines[ri + off1].split('\t')
                                cells[ks[0]] = '4c€'
                                lines[ri + off1] = '\t'.join(cells)
                                break
                for b in sorted(op.get('blank') or [], reverse=True):
                    if b < len(lines):
                        lines.insert(b, '')          # a blank line inside the file (tolerated by both readers; it still counts as a line)
                        bump(probes, 'blank_line_in_input')
                if op['eol'] == 'mixed':
                    text = ''.join(l + ('\r\n' if i % 2 else '\n') for i, l in enumerate(lines))
                    if not op['final_newline']:
                        text = text.rstrip('\r\n')
                else:
                    text = op['eol'].join(lines) + (op['eol'] if op['final_newline'] else '')
            data = text.encode('utf-8')
            if op.get('bom'):
                data = b'\xef\xbb\xbf' + data
                bump(probes, 'bom_input')
            if op.get('flip') and len(data) > 0:
                off = op['flip'][0] % len(data)
                if data[off] not in (0x09, 0x0A, 0x0D):        # the flipped byte damages a character, not the grid
                    data = data[:off] + bytes([op['flip'][1]]) + data[off + 1:]
                    bump(probes, 'flipped_byte_input')
                    bump(faults_fired, 'flipped_stored_byte')
            if '\r\n' in text:
                bump(probes, 'crlf_input')
            return data

        # ---- reference computations (in-memory API only; never touch the simulated OS)
        def ref_load(data, strict):
            text = data.decode('utf-8', 'ignore')
            try:
                d, e = kp.loads(text, raise_on_errors=strict)
            except Exception as ex:
                return ('exc', type(ex).__name__)
            return ('ok', d, e)

        def doc_value(d, e):
            exports = []
            for kw in ({}, {'encoding': kp.Encoding.eKern}, {'spine_types': ['**kern'], 'encoding': kp.Encoding.bEkern}):
                try:
                    exports.append(kp.dumps(d, **kw))
                except Exception as ex:
                    exports.append('raised ' + type(ex).__name__)
            return [doc_snapshot(d), errors_snapshot(e), exports]

        def ref_k2e(data):
            """-> ('raise', why) | ('ok', expected text)"""
            r = ref_load(data, False)
            if r[0] == 'exc':
                return ('raise', 'import raises ' + r[1])
            if r[2]:
                return ('raise', 'import reports errors')
            try:
                return ('ok', kp.dumps(r[1], spine_types=['**kern'], include=kp.BEKERN_CATEGORIES, encoding=kp.Encoding.eKern))
            except Exception as ex:
                return ('raise', 'export raises ' + type(ex).__name__)

        def ref_e2k(data):
            try:
                text = data.decode(locale)
            except UnicodeDecodeError:
                return ('raise', 'input not decodable in locale')
            return ('ok', kp.get_kern_from_ekern(universal(text)))

        def encode_or_none(text):
            try:
                return text.encode(locale)
            except UnicodeEncodeError:
                return None

        def fault_state():
            return sum(f.fired for f in fs.faults if f.kind not in ('eintr_read', 'eintr_write')) + fs.stats.get('actor_unlink', 0)

        def frame_check(before, targets, opname, new_dirs_allowed):
            # an output whose name is a symbolic link is written THROUGH the link (that is what open() does): the file it points to
            # is the target then
            targets = set(targets) | {fs.resolve(t) for t in targets if fs.resolve(t)}
            after = fs.snapshot()
            actor_paths = {s.get('target') for s in plan['fs'].get('actor', [])} | {s.get('path') for s in plan['fs'].get('actor', []) if s['act'] == 'unlink'}
            for p, data in before['files'].items():
                if p in targets or p in actor_paths:
                    continue
                if after['files'].get(p) != data:
                    add_v('frame-violated', f'frame-violated/file-changed/by={opname}', 'unchanged ' + p,
                          'missing' if p not in after['files'] else 'content changed', path=p, op=opname)
            faulted_now = fault_state() != f0
            target_dirs = {posixpath.dirname(t) for t in targets}
            for p in after['files']:
                if p not in before['files'] and p not in targets and p not in actor_paths:
                    if faulted_now and posixpath.dirname(p) in target_dirs:
                        # a failed write may leave a temporary file next to its target (write-then-rename implementations);
                        # C20 says nothing about that: counted, not judged
                        bump(probes, 'leftover_next_to_target_after_fault')
                        continue
                    add_v('frame-violated', f'frame-violated/file-appeared/by={opname}', 'no new file', p, path=p, op=opname)
            actor_mk = [s.get('path') for s in plan['fs'].get('actor', []) if s['act'] == 'mkdir' and s.get('path')]
            actor_dirs = parents_of([s.get('target') for s in plan['fs'].get('actor', []) if s.get('target')]) | set(actor_mk) | parents_of(actor_mk)
            for d in after['dirs']:
                if d not in before['dirs'] and d not in new_dirs_allowed and d not in actor_dirs:
                    # directories created by the actor's mkdir race are required parents too
                    add_v('frame-violated', f'frame-violated/dir-appeared/by={opname}', 'only required parent directories', d, path=d, op=opname)

        def parents_of(paths):
            out = set()
            for p in paths:
                q = posixpath.dirname(p)
                while q.startswith(PREFIX) and q != PREFIX:
                    out.add(q)
                    q = posixpath.dirname(q)
            return out

        def run_cli(argv):
            # the real command-line contract: `python -m kernpy <args>`, in process (runpy executes kernpy/__main__.py as __main__)
            import runpy
            out, err = io.StringIO(), io.StringIO()
            if stdout_enc == 'closed':
                out.close()         # a daemon's or a finished pipe's stdout: every print raises ValueError
            elif stdout_enc != 'utf-8':
                # what sys.stdout is under LANG=C or on a legacy console: a strict text layer over bytes
                out = io.TextIOWrapper(io.BytesIO(), encoding=stdout_enc, errors='strict', write_through=True)
            old_argv = sys.argv
            sys.argv = ['kernpy'] + argv
            sys.modules.pop('kernpy.__main__', None)      # run_module warns if a stale copy of the module is already imported
            status = 'returned'
            try:
                with contextlib.redirect_stdout(out), contextlib.redirect_stderr(err):
                    try:
                        runpy.run_module('kernpy', run_name='__main__', alter_sys=True)
                    except SystemExit as se:
                        status = 'returned' if se.code in (None, 0) else f'exit {se.code}'
                    except Exception as ex:
                        status = 'raised ' + type(ex).__name__
            finally:
                sys.argv = old_argv
            so = '' if stdout_enc == 'closed' else out.getvalue() if isinstance(out, io.StringIO) else out.buffer.getvalue().decode(stdout_enc, 'replace')
            return status, so, err.getvalue()

        def check_target(opname, target, expected_text, returned_normally, faulted, what):
            """After an operation that should have written ``expected_text`` to ``target``."""
            got = fs.get(target)
            exp = encode_or_none(expected_text)
            if exp is None:
                bump(probes, 'locale_cannot_encode')
                if returned_normally and got is not None:
                    # it returned normally although the text is not encodable: whatever it wrote cannot be the text
                    add_v('wrong-target', f'wrong-target/{what}/unencodable-written', 'UnicodeEncodeError', 'returned normally', path=target, op=opname)
                return 'unencodable'
            if returned_normally:
                if got != exp:
                    add_v('wrong-target', f'wrong-target/{what}' + ('/under-fault' if faulted else ''), self._short(exp), self._short(got), path=target, op=opname,
                          expected_len=len(exp), got_len=None if got is None else len(got), locale=locale,
                          **self._diff_detail(kp, exp, got, locale))
                else:
                    bump(probes, 'dump_equal_checked' if what == 'dump' else 'converter_equal_checked')
            else:
                state = 'absent' if got is None else 'complete' if got == exp else 'empty' if got == b'' else 'prefix' if exp.startswith(got) else 'other'
                bump(probes, 'target_after_failed_write:' + state)
            return 'ok'

        ops_through_os = 0
        with fs.mount():
            for op in plan['ops']:
                kind = op['op']
                before = fs.snapshot()
                f0 = fault_state()
                if kind == 'put':
                    fs.put(op['path'], render_bytes(op))
                    log.emit('user', 'put', op['path'], digest_of(fs.get(op['path'])))
                    continue
                if kind == 'symlink':
                    fs.symlink(op['path'], op['target'])
                    bump(probes, 'symlink_among_the_inputs')
                    log.emit('user', 'symlink', [op['path'], op['target']], None)
                    continue
                if kind == 'rmtree':
                    pre = op['dir'].rstrip('/') + '/'
                    for q in [q for q in list(fs.nodes) if q == op['dir'] or q.startswith(pre)]:
                        fs.nodes.pop(q, None)
                    bump(probes, 'output_directory_removed_externally')
                    log.emit('user', 'rmtree', op['dir'], None)
                    continue
                if kind == 'edit':
                    data = fs.get(op['path'])
                    if data:
                        # rotate one pitch letter of a data line: same size, different content
                        lines = data.split(b'\n')
                        cand = []
                        off = 0
                        for ln in lines:
                            if ln and ln[:1] not in (b'*', b'!', b'='):
                                cand.extend(off + i for i, ch in enumerate(ln) if ch in b'cdefgab')
                            off += len(ln) + 1
                        if cand:
                            pos = cand[op['u'] % len(cand)]
                            nxt = b'cdefgabc'[b'cdefgab'.index(data[pos:pos + 1]) + 1]
                            fs.put(op['path'], data[:pos] + bytes([nxt]) + data[pos + 1:])
                            bump(probes, 'edited_in_place_same_size')
                    log.emit('user', 'edit', op['path'], digest_of(fs.get(op['path'])))
                    continue
                if kind == 'put_ekern':
                    d = docs[op['doc'] % len(docs)]
                    try:
                        kd, ke = kp.loads(d.render())
                        text = kp.dumps(kd, spine_types=['**kern'], include=kp.BEKERN_CATEGORIES, encoding=kp.Encoding.eKern)
                    except Exception:
                        text = '**ekern\n4@c\n*-\n'
                    fs.put(op['path'], text.replace('\n', op['eol']).encode('utf-8'))
                    log.emit('user', 'put_ekern', op['path'], digest_of(fs.get(op['path'])))
                    continue
                ops_through_os += 1
                if kind == 'load':
                    p = absolute(op['path'])
                    arg = Path(op['path']) if op['pathtype'] == 'Path' else op['path']
                    data = fs.get(p)
                    # the reference FIRST: if the file reader changes a process-wide setting, the string reader must not have
                    # been helped by it when it gives the reference answer
                    ref = ref_load(data, op['raise_on_errors']) if data is not None else None
                    try:
                        if op.get('deprecated_api') and (plan.get('env2') or {}).get('warnings') != 'error':
                            d, e = kp.read(arg, strict=op['raise_on_errors'])        # deprecated alias of load
                        else:
                            d, e = kp.load(arg, raise_on_errors=op['raise_on_errors'])
                        got = ('ok', d, e)
                    except Exception as ex:
                        got = ('exc', type(ex).__name__)
                    faulted = fault_state() != f0
                    if data is None:
                        exp_cls = 'IsADirectoryError' if fs.is_dir(p) else 'FileNotFoundError'
                        log.emit('client', 'load', op['path'], got[1] if got[0] == 'exc' else 'ok')
                        if got != ('exc', exp_cls) and not faulted:
                            add_v('load-differs', 'load-differs/missing-file', exp_cls, got[1] if got[0] == 'exc' else 'returned a document')
                    else:
                        gv = doc_value(got[1], got[2]) if got[0] == 'ok' else got[1]
                        rv = doc_value(ref[1], ref[2]) if ref[0] == 'ok' else ref[1]
                        log.emit('client', 'load', op['path'], digest_of(gv))
                        if faulted and got[0] == 'exc':
                            bump(probes, 'load_raised_under_fault')
                        elif gv != rv:
                            what = 'exception' if (got[0] == 'exc' or ref[0] == 'exc') else \
                                'errors' if gv[1] != rv[1] else 'tree' if gv[0] != rv[0] else 'exports'
                            add_v('load-differs', f'load-differs/{what}' + ('/under-fault' if faulted else ''),
                                  rv if isinstance(rv, str) else {'errors': rv[1][:4], 'export': rv[2][0][:300]},
                                  gv if isinstance(gv, str) else {'errors': gv[1][:4], 'export': gv[2][0][:300]}, path=p, has_bom=data.startswith(b'\xef\xbb\xbf'))
                        else:
                            bump(probes, 'load_equal_checked')
                    frame_check(before, set(), 'load', set())
                elif kind == 'dump':
                    target = absolute(op['path'])
                    if op.get('prefill'):
                        fs.put(target, b'OLD CONTENT ' * 400)
                        before = fs.snapshot()
                    arg = Path(op['path']) if op['pathtype'] == 'Path' else op['path']
                    d = docs[op['doc'] % len(docs)]
                    if op.get('prefill') and len(op['path']) % 2 == 0:
                        # every second pre-existing target holds THE SAME export already, with CRLF line ends (an earlier dump on
                        # another system): dump still writes exactly what dumps returns
                        try:
                            same = kp.dumps(kp.loads(d.render())[0], **real_opts(op['opts'])).replace('\n', '\r\n').encode(locale)
                            fs.put(target, same)
                            before = fs.snapshot()
                            bump(probes, 'target_holds_same_text_with_crlf')
                        except Exception:
                            pass
                    try:
                        if op.get('from_load') and fs.get(op['from_load']) is not None:
                            kd, _ = kp.load(op['from_load'])
                            bump(probes, 'dumped_a_loaded_document')
                            if fault_state() != f0:
                                continue            # the load itself was faulted: not this operation's subject
                        else:
                            kd, _ = kp.loads(d.render())
                    except Exception:
                        continue
                    o = real_opts(op['opts'])
                    try:
                        expected = ('ok', kp.dumps(kd, **o))
                    except Exception as ex:
                        expected = ('exc', type(ex).__name__)
                    try:
                        kp.dump(kd, arg, **real_opts(op['opts']))
                        got = 'returned'
                    except Exception as ex:
                        got = type(ex).__name__
                    faulted = fault_state() != f0
                    log.emit('client', 'dump', [op['path'], op['opts']], got)
                    if expected[0] == 'exc':
                        if got != expected[1] and not faulted:
                            add_v('dump-differs', 'dump-differs/exception', expected[1], got, opts=op['opts'])
                        # dumps() raises for this option set, so there is no string to write: dump() = dumps() + write must leave
                        # the file system exactly as it was (an existing good file at the target included)
                        frame_check(before, set(), 'dump-that-raises', set())
                    else:
                        res = check_target('dump', target, expected[1], got == 'returned', faulted, 'dump')
                        if got != 'returned' and not faulted and res != 'unencodable':
                            add_v('dump-differs', 'dump-differs/raised', 'returns after writing ' + target, got, opts=op['opts'])
                        if got == 'returned' and not fs.is_dir(posixpath.dirname(target)):
                            add_v('dump-differs', 'dump-differs/parent-missing', 'parent directory exists', 'missing')
                        frame_check(before, {target}, 'dump', parents_of([target]))
                elif kind in ('k2e', 'e2k'):
                    src, out = absolute(op['in']), absolute(op['out'])
                    if op.get('premkdir'):
                        fs.mkdirs(posixpath.dirname(out))
                        if op.get('prefill') and out != src:
                            fs.put(out, b'STALE OUTPUT OF AN EARLIER, LONGER SCORE\n' * 60)     # an already-converted, longer output
                        before = fs.snapshot()
                    data = fs.get(src)
                    fn = kp.kern_to_ekern if kind == 'k2e' else kp.ekern_to_krn
                    try:
                        fn(op['in'], op['out'])
                        got = 'returned'
                    except Exception as ex:
                        got = type(ex).__name__
                    faulted = fault_state() != f0
                    log.emit('client', kind, [op['in'], op['out']], got)
                    if data is None:
                        if got == 'returned':
                            add_v('converter-differs', f'converter-differs/{kind}/missing-input-accepted', 'an exception', 'returned')
                    else:
                        ref = ref_k2e(data) if kind == 'k2e' else ref_e2k(data)
                        self._judge_converter(kind, ref, got, out, faulted, add_v, check_target, bump, probes)
                    frame_check(before, {out}, kind, set())
                elif kind == 'cli':
                    self._exec_cli(op, fs, absolute, ref_k2e, ref_e2k, run_cli, fault_state, f0, before, frame_check, parents_of, check_target,
                                   add_v, bump, probes, log, encode_or_none)
                elif kind == 'roundtrip':
                    self._exec_roundtrip(op, kp, fs, run_cli, ref_k2e, encode_or_none, fault_state, f0, before, frame_check, add_v, bump, probes, log, klass, locale)
                elif kind == 'cli_interrupt':
                    self._exec_cli_interrupt(op, plan, fs, run_cli, ref_k2e, encode_or_none, before, frame_check, add_v, bump, probes, faults_fired, log)
        if fs.escapes:
            from simkit.runner import HarnessError
            raise HarnessError('closure guard: real-path I/O from kernpy during a simulated run: ' + '; '.join(fs.escapes[:3]))
        for k, v in fs.stats.items():
            if k.startswith('fault_') or k.startswith('actor_'):
                faults_fired[k] = faults_fired.get(k, 0) + v
            bump(probes, k, v)
        shape = digest_of([[o['op'] for o in plan['ops']], plan['fs'].get('chunking'), plan['fs'].get('locale'),
                           sorted(f['kind'] for f in plan['fs'].get('faults', [])), sorted(a['act'] for a in plan['fs'].get('actor', [])),
                           sorted(o['path'] for o in plan['ops'] if o['op'] == 'put'), plan['class']])
        return {'digest': log.digest(), 'events': log.seq + fs.seam_events, 'faults': faults_fired, 'probes': probes, 'shape': shape,
                'nontrivial': ops_through_os > 0 and (probes.get('load_equal_checked', 0) + probes.get('dump_equal_checked', 0) +
                                                      probes.get('converter_equal_checked', 0) + probes.get('roundtrip_checked', 0)) > 0,
                'config': plan['config'], 'hash_sensitive': any(o['op'] == 'cli_interrupt' for o in plan['ops']), 'violations': viol, 'extra': {'sum': {'ops_through_os': ops_through_os}}}

    # ---------------------------------------------------------------- helpers
    @staticmethod
    def _short(b):
        if b is None:
            return None
        try:
            s = b.decode('utf-8')
        except Exception:
            s = repr(b)
        return s if len(s) <= 400 else s[:400] + f'...[{len(s)} chars]'

    @staticmethod
    def _diff_detail(kp, exp, got, locale):
        """Shape features of a wrong converter target, used by known-finding matchers."""
        if got is None:
            return {}
        try:
            e, g = exp.decode(locale), got.decode(locale)
        except Exception:
            return {}
        el, gl = e.split('\n'), g.split('\n')
        return {'expected_lines': len(el), 'got_lines': len(gl)}

    def _judge_converter(self, kind, ref, got, out, faulted, add_v, check_target, bump, probes):
        if ref[0] == 'raise':
            if got == 'returned' and not faulted:
                add_v('converter-differs', f'converter-differs/{kind}/should-raise', 'an exception (' + ref[1] + ')', 'returned normally', why=ref[1])
            return
        res = check_target(kind, out, ref[1], got == 'returned', faulted, kind)
        if got != 'returned' and not faulted and res != 'unencodable':
            add_v('converter-differs', f'converter-differs/{kind}/raised', 'returns after writing ' + out, got)

    def _matching(self, fs, root, patterns_suffix, recursive):
        """The CLI contract: files directly in ``root`` (or at any depth with -r) whose name ends with one of the suffixes."""
        out = []
        pre = root.rstrip('/') + '/'
        for p in sorted(set(fs.files()) | {q for q in fs.links() if fs.get(q) is not None}):
            if not p.startswith(pre):
                continue
            rel = p[len(pre):]
            if not recursive and '/' in rel:
                continue
            if p.endswith(tuple(patterns_suffix)):
                out.append(p)
        return out

    def _exec_cli(self, op, fs, absolute, ref_k2e, ref_e2k, run_cli, fault_state, f0, before, frame_check, parents_of, check_target, add_v, bump, probes, log, encode_or_none):
        mode = op['mode']
        inp = absolute(op['input'])
        argv = ['--kern2ekern' if mode == 'k2e' else '--ekern2kern', '--input_path', op['input'], '--verbose', str(op['verbose'])]
        if op.get('output'):
            argv += ['--output_path', op['output']]
        if op.get('recursive'):
            argv += ['-r']
        in_suffixes = ('.krn', '.kern') if mode == 'k2e' else ('.ekrn', '.ekern')
        out_suffix = '.ekrn' if mode == 'k2e' else '.krn'
        ref_fn = ref_k2e if mode == 'k2e' else ref_e2k
        single = fs.get(inp) is not None
        if single:
            out = absolute(op['output']) if op.get('output') else self._with_suffix(inp, out_suffix)
            if op.get('premkdir'):
                fs.mkdirs(posixpath.dirname(out))
                if op.get('prefill') and out != inp:
                    fs.put(out, b'STALE OUTPUT OF AN EARLIER, LONGER SCORE\n' * 60)
                before = fs.snapshot()
            data = fs.get(inp)
            status, so, se = run_cli(argv)
            faulted = fault_state() != f0
            log.emit('client', 'cli-single', argv, status)
            ref = ref_fn(data)
            got = 'returned' if status == 'returned' else status
            if self._stdout_narrow and op['verbose'] and status in ('raised UnicodeEncodeError', 'raised ValueError') and ref[0] == 'ok' and \
                    encode_or_none(ref[1]) is not None and (status == 'raised ValueError') == (self._stdout_enc == 'closed'):
                # the only thing that cannot be encoded is the progress line on a narrow stdout: the conversion itself is not
                # excused - the output file must be there and exact (the unchanged tree converts first and reports afterwards)
                got = 'returned'
                bump(probes, 'stdout_cannot_encode_progress_line')
            if out == inp:
                bump(probes, 'output_is_the_input_file')     # converting in place: the API result replaces the input
            self._judge_converter('cli-' + mode, ref, got, out, faulted, add_v, check_target, bump, probes)
            frame_check(before, {out}, 'cli-single', set())
            return
        # ---- directory mode
        if op.get('output'):
            bump(probes, 'dir_mode_with_output_path')
        inputs = self._matching(fs, inp, in_suffixes, op.get('recursive'))
        nested = self._matching(fs, inp, in_suffixes, True)
        if not op.get('recursive') and len(nested) > len(inputs):
            bump(probes, 'dir_mode_nested_skipped_without_r')
        expect = {}
        for p in inputs:
            expect[p] = (self._with_suffix(p, out_suffix), ref_fn(fs.get(p)))
        if op.get('prefill'):
            for p in inputs:
                o = expect[p][0]
                if o not in expect and fs.get(o) is None:
                    fs.put(o, b'STALE OUTPUT OF AN EARLIER, LONGER SCORE\n' * 60)      # already-converted outputs of longer scores
            before = fs.snapshot()
        status, so, se = run_cli(argv)
        faulted = fault_state() != f0
        log.emit('client', 'cli-dir', argv, [status, len(inputs)])
        # an input counts as reported when stderr mentions it - absolute, as given, or by name (the wording is not part of C20)
        reported_paths = set()
        for p0 in inputs:
            rel = posixpath.join(op['input'], p0[len(inp.rstrip('/')) + 1:])
            unique_name = sum(1 for q in inputs if posixpath.basename(q) == posixpath.basename(p0)) == 1 and \
                sum(1 for q in inputs if posixpath.basename(p0) in posixpath.basename(q)) == 1
            if (p0 + ':') in se or (p0 + ' ') in se or (rel + ':') in se or (rel + ' ') in se or se.rstrip().endswith(p0) or \
                    (unique_name and posixpath.basename(p0) in se):
                reported_paths.add(p0)
        if status != 'returned' and not faulted:
            add_v('cli-dir-aborted', f'cli-dir-aborted/{mode}', 'returns after converting what can be converted', status, stderr=se[:200])
        targets = set()
        failed_expected = 0
        out_count = {}
        for p, (out, ref) in expect.items():
            out_count[out] = out_count.get(out, 0) + 1
        for p, (out, ref) in expect.items():
            targets.add(out)
            if out in expect:
                continue        # the output is itself an input (pathological naming); skip content check
            if out_count[out] > 1:
                # two inputs of one stem in one directory (a.krn and a.kern, possibly created by an earlier conversion or dump)
                # convert onto the same output file: which one wins is not defined by C20
                bump(probes, 'dir_mode_output_collision')
                continue
            if fs.get(p) is None:
                bump(probes, 'input_vanished_during_dir_mode')      # the actor removed it between two listings
                continue
            if ref[0] == 'raise':
                failed_expected += 1
                if not faulted and p not in reported_paths and status == 'returned':
                    add_v('cli-dir-silent-failure', f'cli-dir-silent-failure/{mode}', 'an "Error converting" line on stderr for ' + p, se[:200], why=ref[1])
                continue
            if status == 'returned' or not faulted:
                reported = p in reported_paths
                if reported and self._stdout_narrow and op['verbose'] and not faulted and encode_or_none(ref[1]) is not None and ('codec can' in se or 'closed file' in se):
                    # reported only because the progress line did not fit the narrow stdout: the file must be there and exact
                    reported = False
                    bump(probes, 'stdout_cannot_encode_progress_line')
                if reported and (faulted or encode_or_none(ref[1]) is None):
                    bump(probes, 'dir_mode_reported_under_fault' if faulted else 'locale_cannot_encode')
                    continue
                self._judge_converter('cli-dir-' + mode, ref, 'returned' if not reported else 'reported-error', out, faulted, add_v, check_target, bump, probes)
        if failed_expected and len(expect) > failed_expected:
            bump(probes, 'dir_mode_one_input_failed')
        frame_check(before, targets, 'cli-dir', set())

    @staticmethod
    def _with_suffix(path, suffix):
        d, name = posixpath.split(path)
        stem = name
        if '.' in name.lstrip('.'):
            stem = name[:name.rindex('.')]
        return posixpath.join(d, stem + suffix)

    def _exec_roundtrip(self, op, kp, fs, run_cli, ref_k2e, encode_or_none, fault_state, f0, before, frame_check, add_v, bump, probes, log, klass, locale):
        src = op['in']
        data = fs.get(src)
        if data is None:
            return
        rt = posixpath.join(WORK, 'roundtrip', op['tag'])
        fs.mkdirs(rt)
        before = fs.snapshot()
        e1, k2, e2 = rt + '/one.ekrn', rt + '/two.krn', rt + '/three.ekrn'

        def conv(mode, a, b):
            if op['via'] == 'cli':
                st, so, se = run_cli(['--kern2ekern' if mode == 'k2e' else '--ekern2kern', '--input_path', a, '--output_path', b, '--verbose', '0'])
                return st
            try:
                (kp.kern_to_ekern if mode == 'k2e' else kp.ekern_to_krn)(a, b)
                return 'returned'
            except Exception as ex:
                return 'raised ' + type(ex).__name__

        s1 = conv('k2e', src, e1)
        ref = ref_k2e(data)
        faulted = fault_state() != f0
        log.emit('client', 'roundtrip-1', src, s1)
        if s1 != 'returned' or ref[0] != 'ok':
            frame_check(before, {e1, k2, e2}, 'roundtrip', set())
            return
        first = fs.get(e1)
        if faulted:
            frame_check(before, {e1, k2, e2}, 'roundtrip', set())
            return
        s2 = conv('e2k', e1, k2)
        s3 = conv('k2e', k2, e2) if s2 == 'returned' else 'skipped'
        faulted = fault_state() != f0
        log.emit('client', 'roundtrip-3', src, [s2, s3])
        if not faulted:
            third = fs.get(e2)
            if s2 != 'returned' or s3 != 'returned':
                if locale != 'utf-8' and any('UnicodeEncodeError' in x or 'UnicodeDecodeError' in x for x in (s2, s3)):
                    bump(probes, 'locale_cannot_encode')      # the separator '·' or a character of the score is outside the locale
                elif encode_or_none(ref[1]) is not None:
                    add_v('roundtrip-differs', f'roundtrip-differs/step-failed/{klass}', 'both conversions succeed', [s2, s3], first=self._short(first),
                          kern=self._short(fs.get(k2)), **self._rt_features(first, None, locale))
            elif third != first:
                add_v('roundtrip-differs', f'roundtrip-differs/content/{klass}', self._short(first), self._short(third),
                      **self._rt_features(first, third, locale))
            else:
                bump(probes, 'roundtrip_checked')
        frame_check(before, {e1, k2, e2}, 'roundtrip', set())

    @staticmethod
    def _rt_features(first, third, locale):
        """Which cells differ between the first and the third ekern, and how (for the known-finding matchers)."""
        out = {'cells': []}
        try:
            a = first.decode(locale).split('\n')
            b = third.decode(locale).split('\n') if third is not None else None
        except Exception:
            return out
        if b is None or len(a) != len(b):
            out['grid_differs'] = b is not None
            return out
        for la, lb in zip(a, b):
            ca, cb = la.split('\t'), lb.split('\t')
            if len(ca) != len(cb):
                out['grid_differs'] = True
                return out
            for x, y in zip(ca, cb):
                if x != y:
                    out['cells'].append([x, y])
        out['cells'] = out['cells'][:12]
        return out

    def _exec_cli_interrupt(self, op, plan, fs, run_cli, ref_k2e, encode_or_none, before, frame_check, add_v, bump, probes, faults_fired, log):
        inp = op['input']
        if not fs.is_dir(inp):
            return
        argv = ['--kern2ekern', '--input_path', inp, '--verbose', '0'] + (['-r'] if op.get('recursive') else [])
        inputs = self._matching(fs, inp, ('.krn', '.kern'), op.get('recursive'))
        targets = {self._with_suffix(p, '.ekrn') for p in inputs}
        # dry run on a replica tree (same knobs, no faults) to count the line events of this operation
        import copy
        replica = SimFS(dict(plan['fs'], faults=[], actor=[]), None)
        replica.nodes = copy.deepcopy(fs.nodes)
        replica.cwd = fs.cwd
        inj = intr.injector(kernpy_src())
        # the live tree is mounted: swap to the replica for the dry run
        live_mount = fs.mount()
        live_mount.__exit__(None, None, None)
        try:
            with replica.mount():
                total = inj.count_events(lambda: run_cli(argv))
        finally:
            live_mount.__enter__()
        if total <= 0:
            return
        k = 1 + op['k_u'] % total
        holder = {}

        def call():
            holder['r'] = run_cli(argv)

        delivered, out = inj.run(call, k, op['payload'])
        log.emit('fault', 'cli-interrupt', [argv, op['payload']], [delivered, out[0]])
        faults_fired['interrupt_' + op['payload']] = faults_fired.get('interrupt_' + op['payload'], 0) + 1
        if delivered:
            bump(probes, 'interrupt_delivered')
        frame_check(before, targets, 'cli-interrupt', set())
        # recovery: the very next fault-free run of the same command must produce exact results
        before2 = fs.snapshot()
        f_before = sum(f.fired for f in fs.faults)
        status, so, se = run_cli(argv)
        if sum(f.fired for f in fs.faults) != f_before:
            return
        outs = [self._with_suffix(p, '.ekrn') for p in inputs]
        for p in inputs:
            data = fs.get(p)
            if data is None:
                continue
            if outs.count(self._with_suffix(p, '.ekrn')) > 1:
                bump(probes, 'dir_mode_output_collision')     # two inputs of one stem: which one wins is not defined by C20
                continue
            ref = ref_k2e(data)
            if ref[0] != 'ok':
                continue
            exp = encode_or_none(ref[1])
            if exp is None:
                continue
            got = fs.get(self._with_suffix(p, '.ekrn'))
            if status == 'returned' and got != exp:
                add_v('wrong-target', 'wrong-target/rerun-after-interrupt', self._short(exp), self._short(got), path=p)
            elif status == 'returned':
                bump(probes, 'rerun_after_fault_exact')
        frame_check(before2, targets, 'cli-rerun', set())

    # ================================================================ minimisation
    def shrink(self, plan, still_fails, budget):
        cur = dict(plan)
        # 1. simplest environment first
        for change in ({'faults': [], 'actor': []}, {'chunking': 'whole'}, {'shuffle_listing': False}, {'locale': 'utf-8'}, {'actor': []}):
            cand = dict(cur, fs=dict(cur['fs'], **change))
            if cand['fs'] != cur['fs'] and still_fails(cand):
                cur = cand
        if cur['fs'].get('faults'):
            fl = ddmin_list(cur['fs']['faults'], lambda f: still_fails(dict(cur, fs=dict(cur['fs'], faults=f))), budget, min_len=0)
            if still_fails(dict(cur, fs=dict(cur['fs'], faults=fl))):
                cur = dict(cur, fs=dict(cur['fs'], faults=fl))
        # 2. fewer operations
        ops = ddmin_list(cur['ops'], lambda o: still_fails(dict(cur, ops=o)), budget, min_len=1)
        if still_fails(dict(cur, ops=ops)):
            cur = dict(cur, ops=ops)
        # 3. simpler puts
        new_ops = []
        changed = False
        for o in cur['ops']:
            if o['op'] == 'put' and (o.get('eol') != '\n' or o.get('bom') or o.get('flip') or not o.get('final_newline')):
                cand_o = dict(o, eol='\n', bom=False, flip=None, final_newline=True)
                cand = dict(cur, ops=[cand_o if x is o else x for x in cur['ops']])
                if still_fails(cand):
                    cur = cand
        # 4. smaller documents
        import kernpy as kp
        for di in range(len(cur['docs'])):
            doc = cur['docs'][di]
            idx = list(range(len(doc['rows'])))

            def build(ix, di=di, doc=doc):
                nd = dict(doc, rows=[doc['rows'][i] for i in sorted(ix)])
                docs = list(cur['docs'])
                docs[di] = nd
                return dict(cur, docs=docs)

            def test(ix):
                p = build(ix)
                try:
                    cand = docgen.Doc.from_json(p['docs'][di])
                    if not cand.consistent():
                        return False
                    kp.loads(cand.render())
                except Exception:
                    return False
                return still_fails(p)

            ix = ddmin_list(idx, test, budget, min_len=2)
            if test(ix):
                cur = build(ix)
        return cur

    # ================================================================ known-finding matchers
    @staticmethod
    def _m_dotted(v, params):
        """ekern -> kern -> ekern differs only by augmentation dots that moved from the duration part to the signifier part."""
        d = v.get('detail') or {}
        cells = d.get('cells') or []
        if v['class'] != 'roundtrip-differs' or not cells or d.get('grid_differs'):
            return False

        def norm_note(n):
            main, _, dec = n.partition('·')
            fields = main.split('@')
            decs = [x for x in dec.split('·') if x] if dec else []
            return fields, decs

        for x, y in cells:
            nx, ny = x.split(' '), y.split(' ')
            if len(nx) != len(ny):
                return False
            moved = False
            for a, b in zip(nx, ny):
                fa, da = norm_note(a)
                fb, db = norm_note(b)
                ndots = fa.count('.')
                if ndots:
                    moved = True
                    fa = [f for f in fa if f != '.']
                    da = sorted(set(da) | {'.'})
                else:
                    da = sorted(set(da))
                if fa != fb or da != sorted(set(db)):
                    # chord notes share their signifiers: a dot moved on one note shows up on every note of the chord
                    if fa != fb or sorted(set(da) | {'.'}) != sorted(set(db)):
                        return False
                    moved = True
            if not moved:
                return False
        return True

    @staticmethod
    def _m_combining(v, params):
        """Only in the harness's own combining-signifiers input class: the differing cells contain the same characters,
        differently grouped (signifiers that merged when the separators were removed: 'W·w' -> 'Ww', '(·>' -> '(>')."""
        d = v.get('detail') or {}
        cells = d.get('cells') or []
        if v['class'] != 'roundtrip-differs' or d.get('input_class') != 'combining' or not cells or d.get('grid_differs'):
            return False
        strip = lambda t: sorted(t.replace('·', '').replace('@', ''))
        return all(strip(x) == strip(y) or set(strip(x)) == set(strip(y)) for x, y in cells)

    @staticmethod
    def _m_glued(v, params):
        """ekern -> kern -> ekern differs only in notes where a signifier of the first ekern's '·' list reappears glued to the
        pitch part of the second (a stand-alone display-suffix letter next to an accidental: '8@D@--·X' -> kern '8D--X' ->
        '8@D@--X·X'). Any input class; every differing note must have exactly this shape."""
        d = v.get('detail') or {}
        cells = d.get('cells') or []
        if v['class'] != 'roundtrip-differs' or not cells or d.get('grid_differs'):
            return False
        for x, y in cells:
            nx, ny = x.split(' '), y.split(' ')
            if len(nx) != len(ny):
                return False
            glued = False
            for a, b in zip(nx, ny):
                if a == b:
                    continue
                ma, _, da = a.partition('·')
                mb, _, db = b.partition('·')
                sa = set(''.join(t for t in da.split('·') if t))
                sb = set(''.join(t for t in db.split('·') if t))
                if not mb.startswith(ma):
                    return False
                g = set(mb[len(ma):].replace('@', ''))
                if not g or not g <= sa or not sb <= sa or not (sa - sb) <= g:
                    return False
                glued = True
            if not glued:
                return False
        return True

    MATCHERS = {'dotted_duration_reordered': _m_dotted.__func__, 'combining_signifiers': _m_combining.__func__,
                'signifier_glued_to_pitch': _m_glued.__func__}


CHECK = C20()
