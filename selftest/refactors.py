#!/usr/bin/env python3
"""No-false-alarm self-test on LEGITIMATE changes: every behaviour-preserving refactor in refactors/<id>/patch.diff must leave
all quick checks silent (exit 0). The refactors were written by independent sub-agents who were given only a property's text and
a scratch worktree and asked to restructure the anchored code without changing any public result.

usage: refactors.py [--jobs N] [--all-checks] [name-substring ...]     (default: only the refactor's own property's check)
"""
import concurrent.futures as cf
import glob, json, os, re, shutil, subprocess, sys, tempfile, time

HERE = os.path.dirname(os.path.dirname(os.path.abspath(__file__)))
REPO = '/repo'
ALL = ['C12', 'C14', 'C15', 'C16', 'C20']


def run_one(item, all_checks):
    t0 = time.time()
    scratch = tempfile.mkdtemp(prefix='kernpy_ref_', dir='/tmp')
    res = {'name': item['name'], 'results': {}}
    try:
        subprocess.run(['rsync', '-a', '--exclude', '.git', '--exclude', '__pycache__', REPO + '/', scratch + '/'], check=True)
        p = subprocess.run(['patch', '-p1', '-s', '-i', item['patch']], cwd=scratch, capture_output=True, text=True)
        if p.returncode != 0:
            res['results']['patch'] = 'PATCH-FAILED ' + (p.stdout + p.stderr)[-200:]
            return res
        b = subprocess.run([sys.executable, os.path.join(HERE, 'tools', 'baseline_check.py'), scratch], capture_output=True, text=True)
        res['baseline'] = 'green' if b.returncode == 0 else 'BROKEN ' + b.stdout[-200:]
        env = dict(os.environ, KERNPY_SRC=scratch, VERIF_REPLAY_DIR=os.path.join(HERE, 'out', 'replay-refactors', item['name']))
        env.pop('PYTHONHASHSEED', None)
        env.pop('SIMKIT_NO_REEXEC', None)
        for prop in (ALL if all_checks else [item['property']]):
            c = subprocess.run([os.path.join(HERE, 'check'), prop, '--tier', 'quick', '--no-evidence'], env=env, cwd=HERE, capture_output=True, text=True, timeout=3600)
            sig = re.search(r'signature=(\S+)', c.stderr)
            res['results'][prop] = 'silent' if c.returncode == 0 else f'ALARM rc={c.returncode} {sig.group(1) if sig else c.stderr[-200:]}'
        return res
    finally:
        shutil.rmtree(scratch, ignore_errors=True)
        res['wall_s'] = round(time.time() - t0, 1)


def main():
    args = [a for a in sys.argv[1:] if not a.startswith('--')]
    jobs = 2
    if '--jobs' in sys.argv:
        jobs = int(sys.argv[sys.argv.index('--jobs') + 1])
        args = [a for a in args if a != str(jobs)]
    items = []
    for p in sorted(glob.glob(os.path.join(HERE, 'refactors', '*', 'patch.diff'))):
        meta = json.load(open(os.path.join(os.path.dirname(p), 'meta.json'), encoding='utf-8'))
        name = os.path.basename(os.path.dirname(p))
        if not args or any(a in name for a in args):
            items.append({'name': name, 'patch': p, 'property': meta['property']})
    bad = 0
    with cf.ThreadPoolExecutor(max_workers=jobs) as ex:
        for r in ex.map(lambda it: run_one(it, '--all-checks' in sys.argv), items):
            ok = all(v == 'silent' for v in r['results'].values()) and r.get('baseline') == 'green'
            bad += not ok
            print(f"{r['name']:56s} base={r.get('baseline', '?')[:10]:10s} " + ' '.join(f'{k}={v}' for k, v in r['results'].items()) + f"  {r.get('wall_s')}s", flush=True)
    print(f'refactors: {len(items) - bad}/{len(items)} legitimate changes left the checks silent')
    return 1 if bad else 0


if __name__ == '__main__':
    sys.exit(main())
