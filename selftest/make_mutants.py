#!/usr/bin/env python3
"""Regenerate selftest/mutants/*.diff from the table below against /repo's current tree.

Each mutant breaks ONE claimed property while keeping the pinned suite green (checked by sensitivity.py --baseline).
(name, property, file, old, new[, note])
"""
import difflib, os, sys
REPO = os.environ.get('KERNPY_SRC', '/repo')
OUT = os.path.join(os.path.dirname(os.path.abspath(__file__)), 'mutants')

M = []
def m(name, prop, file, old, new, note=''):
    M.append((name, prop, file, old, new, note))

# ------------------------------------------------------------------ C12
m('c12-revert-listener-reset', 'C12', 'kernpy/core/kern_spine_importer.py',
  "        self.error_listener.errors = []  # the errors of a previous token must not be reported for this one\n", "",
  'needs: a malformed **kern cell followed by any later cell of the same importer')
m('c12-errortoken-export-constant', 'C12', 'kernpy/core/tokens.py',
  "        return self.encoding    # TODO: should we add a constant for the error token?", "        return ERROR_TOKEN    # TODO: should we add a constant for the error token?",
  'needs: an export of a document with an error token')
m('c12-line-is-stage', 'C12', 'kernpy/core/importer.py',
  "                                token = ErrorToken(column, self._row_number, str(error))", "                                token = ErrorToken(column, self._tree_stage, str(error))",
  'needs: a blank line before the malformed cell (stage and row number agree otherwise)')
m('c12-errors-class-attribute', 'C12', 'kernpy/core/importer.py',
  "        self.last_bounding_box = None\n        self.errors = []\n", "        self.last_bounding_box = None\n",
  'two sites: class-level list + no reset in __init__; needs two imports in one process, the first with a malformed cell',
  ) if False else None
m('c12-swallow-to-placeholder', 'C12', 'kernpy/core/importer.py',
  "                                token = ErrorToken(column, self._row_number, str(error))\n                                self.errors.append(token)",
  "                                token = ErrorToken(column, self._row_number, str(error))\n                                if not self.errors or self.errors[-1].line != self._row_number:\n                                    self.errors.append(token)",
  'needs: two malformed cells in ONE row (adjacent faults): only the first is reported')
m('c12-error-text-stripped', 'C12', 'kernpy/core/importer.py',
  "                                token = ErrorToken(column, self._row_number, str(error))", "                                token = ErrorToken(column.strip(), self._row_number, str(error))",
  'needs: a malformed cell with leading/trailing blank or NBSP (unlexable U+00A0 at start or end)')
m('c12-listener-reset-only-on-success', 'C12', 'kernpy/core/kern_spine_importer.py',
  "        self.error_listener.errors = []  # the errors of a previous token must not be reported for this one\n",
  "        if len(self.error_listener.errors) > 1:\n            self.error_listener.errors = []  # the errors of a previous token must not be reported for this one\n",
  'needs: a malformed cell that produced exactly ONE listener error, then a later cell')

# ------------------------------------------------------------------ C14
m('c14-sort-decorations-in-place', 'C14', 'kernpy/core/tokens.py',
  "        decoration_tokens_sorted = sorted(\n            decoration_tokens, key=lambda t: (t.category.value, t.encoding)\n        )",
  "        self.decoration_subtokens.sort(key=lambda t: (t.category.value, t.encoding))\n        decoration_tokens_sorted = sorted(\n            decoration_tokens, key=lambda t: (t.category.value, t.encoding)\n        )",
  'needs: a note with >=2 signifiers not already sorted, exported once; then a snapshot or a token query')
m('c14-hide-filtered-tokens', 'C14', 'kernpy/core/exporter.py',
  "            row.append(self._retrieve_empty_token(node))\n            return True  # The spine must be kept, but this specific token does not achieve the requirements",
  "            row.append(self._retrieve_empty_token(node))\n            node.token.hidden = True\n            return True  # The spine must be kept, but this specific token does not achieve the requirements",
  'needs: an export with a category filter, then any later export')
m('c14-traversal-class-list', 'C14', 'kernpy/core/document.py',
  "        self.tokens = []\n        self.seen_encodings = []\n        self.non_repeated = non_repeated",
  "        self.seen_encodings = []\n        self.non_repeated = non_repeated",
  'two sites (see second hunk): class attribute tokens = [] shared by all traversals; needs two token queries')
m('c14-append-to-caller-spine-ids', 'C14', 'kernpy/core/generic.py',
  "            if value is not None:\n                setattr(options, key, value)",
  "            if value is not None:\n                if key == 'spine_ids' and isinstance(value, list) and 0 not in value and len(value) > 0:\n                    value.append(0)  # the first spine carries the signatures\n                setattr(options, key, value)",
  'needs: dumps(spine_ids=[k...]) without 0; mutates the caller\'s list')
m('c14-headers-shared-and-discard', 'C14', 'kernpy/core/exporter.py',
  "        self.spine_types = spine_types if spine_types is not None else deepcopy(HEADERS)",
  "        self.spine_types = spine_types if spine_types is not None else HEADERS",
  'two sites: shared HEADERS default + a discard in get_spine_types (second hunk)')
m('c14-cancelled-at-stage-written-by-excerpt', 'C14', 'kernpy/core/exporter.py',
  "                        if isinstance(node.token, SpineOperationToken) and (node.token.is_cancelled_at(\n                                from_stage) or node.last_spine_operator_node and node.last_spine_operator_node.token.cancelled_at_stage == node.stage):\n                            content = '*'",
  "                        if isinstance(node.token, SpineOperationToken) and (node.token.is_cancelled_at(\n                                from_stage) or node.last_spine_operator_node and node.last_spine_operator_node.token.cancelled_at_stage == node.stage):\n                            content = '*'\n                            node.token.cancelled_at_stage = node.stage",
  'needs: an excerpt export (from_measure>1) of a document whose split was re-joined before that measure')
m('c14-temp-mutate-no-finally', 'C14', 'kernpy/core/exporter.py',
  "        rows = []\n\n        if options.to_measure is not None and options.to_measure < len(document.measure_start_tree_stages):",
  "        rows = []\n        saved_header_stage = document.header_stage\n        document.header_stage = None  # not needed while exporting\n\n        if options.to_measure is not None and options.to_measure < len(document.measure_start_tree_stages):",
  'two sites: header_stage cleared at the start of export_string and restored before the return (second hunk) without try/finally; '
  'needs an export that raises midway or an interruption')
m('c14-unique-tokens-cache-on-document', 'C14', 'kernpy/core/document.py',
  "        computed_categories = TokenCategory.valid(include=filter_by_categories)\n        traversal = TokensTraversal(True, computed_categories)\n        self.tree.dfs_iterative(traversal)\n        return traversal.tokens",
  "        if getattr(self, '_unique_cache', None) is not None:\n            return self._unique_cache\n        computed_categories = TokenCategory.valid(include=filter_by_categories)\n        traversal = TokensTraversal(True, computed_categories)\n        self.tree.dfs_iterative(traversal)\n        self._unique_cache = traversal.tokens\n        return traversal.tokens",
  'needs: two get_unique_tokens calls with DIFFERENT category filters on one document (private memo ignores the filter)')

m('c14-all-tokens-memo-hands-out-its-own-list', 'C14', 'kernpy/core/document.py',
  "        computed_categories = TokenCategory.valid(include=filter_by_categories)\n        traversal = TokensTraversal(False, computed_categories)\n        self.tree.dfs_iterative(traversal)\n        return traversal.tokens",
  "        computed_categories = TokenCategory.valid(include=filter_by_categories)\n        memo = self.__dict__.setdefault('_all_tokens_memo', {})\n        key = frozenset(computed_categories)\n        if key not in memo:\n            traversal = TokensTraversal(False, computed_categories)\n            self.tree.dfs_iterative(traversal)\n            memo[key] = traversal.tokens\n        return memo[key]",
  'needs: the caller edits the list a query returned (clear/append), then the same query again')

m('c14-frequencies-cache-keyed-by-id', 'C14', 'kernpy/core/document.py',
  "        tokens = self.get_all_tokens(filter_by_categories=token_categories)\n        frequencies = {}",
  "        key = (id(self), None if token_categories is None else tuple(sorted(c.name for c in TokenCategory.valid(include=token_categories))))\n        if key in _FREQ_CACHE:\n            return dict(_FREQ_CACHE[key])\n        tokens = self.get_all_tokens(filter_by_categories=token_categories)\n        frequencies = {}",
  'two sites (module-level dict + store before return); keyed by id(document): needs a short-lived document of another text that was queried and '
  'freed, then a new document that reuses its id')

# ------------------------------------------------------------------ C15
m('c15-revert-clone', 'C15', 'kernpy/core/document.py',
  "        tree = MultistageTree()\n        tree.root = link(self.tree.root)\n        tree.stages = [[link(node) for node in stage] for stage in self.tree.stages]\n\n        result = Document(tree)",
  "        tree = copy(self.tree)\n\n        result = Document(tree)",
  'needs: look at the SOURCE after to_transposed')
m('c15-direction-inverted-for-down', 'C15', 'kernpy/core/pitch_models.py',
  "        delta = raw_interval if direction == Direction.UP.value else - raw_interval",
  "        delta = raw_interval if direction != Direction.DOWN.value or raw_interval == 40 else - raw_interval",
  'needs: direction=down with the octave interval')
m('c15-rests-rewritten', 'C15', 'kernpy/core/document.py',
  "                    else:\n                        # leave duration subtokens untouched\n                        new_subtokens.append(Subtoken(subtoken.encoding, subtoken.category))",
  "                    elif subtoken.category == TokenCategory.REST:\n                        new_subtokens.append(Subtoken('r', subtoken.category))\n                        new_subtokens.append(Subtoken('r', subtoken.category))\n                    else:\n                        # leave duration subtokens untouched\n                        new_subtokens.append(Subtoken(subtoken.encoding, subtoken.category))",
  'needs: a rest in the document')
m('c15-decorations-dropped-when-accidental-appears', 'C15', 'kernpy/core/document.py',
  "                    decoration_subtokens=orig_token.decoration_subtokens,",
  "                    decoration_subtokens=orig_token.decoration_subtokens if transposed_pitch_encoding is None or transposed_pitch_encoding[-1] not in '#-' else [],",
  'needs: a note with signifiers whose transposed spelling needs an accidental')
m('c15-octave-off-by-one-negative', 'C15', 'kernpy/core/pitch_models.py',
  "        octave = chroma // 40\n        return AgnosticPitch(name, octave)",
  "        octave = chroma // 40 if chroma % 40 or delta >= 0 else chroma // 40 + 1\n        return AgnosticPitch(name, octave)",
  'needs: a downward transposition landing exactly on chroma 0 (C--)')
m('c15-duration-recategorised', 'C15', 'kernpy/core/document.py',
  "                        new_subtokens.append(Subtoken(subtoken.encoding, subtoken.category))\n\n                # Replace",
  "                        new_subtokens.append(Subtoken(subtoken.encoding, TokenCategory.DECORATION if subtoken.encoding in ('q', 'p', 'P') else subtoken.category))\n\n                # Replace",
  'needs: a grace note / appoggiatura (changes the field order of the eKern cell)')
m('c15-transposes-source-header-too', 'C15', 'kernpy/core/document.py',
  "        new_document = self.clone()\n\n        # BFS through the tree",
  "        new_document = self.clone()\n        new_document.measure_start_tree_stages = self.measure_start_tree_stages\n        if len(self.measure_start_tree_stages) > 2:\n            self.measure_start_tree_stages.pop()\n\n        # BFS through the tree",
  'needs: a source with >2 measures; the source loses its last measure index (visible in measure-range-less exports? no: only in agnostic/ranged) ',
  ) if False else None

# ------------------------------------------------------------------ C16
m('c16-revert-export-fix', 'C16', 'kernpy/core/pitch_models.py',
  "        name = pitch.name.replace('+', '').replace('-', '')\n\n        if pitch.octave >= HumdrumPitchExporter.C4_OCATAVE:\n            return f\"{name.lower() * (pitch.octave - HumdrumPitchExporter.C4_OCATAVE + 1)}{accidentals_output}\"\n        else:\n            return f\"{name.upper() * (HumdrumPitchExporter.C3_OCATAVE - pitch.octave + 1)}{accidentals_output}\"",
  "        pitch.name = pitch.name.replace('+', '').replace('-', '')\n\n        if pitch.octave >= HumdrumPitchExporter.C4_OCATAVE:\n            return f\"{pitch.name.lower() * (pitch.octave - HumdrumPitchExporter.C4_OCATAVE + 1)}{accidentals_output}\"\n        else:\n            return f\"{pitch.name.upper() * (HumdrumPitchExporter.C3_OCATAVE - pitch.octave + 1)}{accidentals_output}\"",
  'needs: the same pitch object exported twice')
m('c16-low-octave-off-by-one', 'C16', 'kernpy/core/pitch_models.py',
  "            octave = max_octave - (len(encoding) - 1)", "            octave = max_octave - (len(encoding) - 1) if len(encoding) < 5 else max_octave - len(encoding)",
  'needs: octave -1 (five upper-case letters)')
m('c16-importer-reuses-name', 'C16', 'kernpy/core/pitch_models.py',
  "        name = f\"{pitch}{accidentals}\"\n        return name, octave",
  "        name = f\"{pitch}{accidentals}\" if accidentals or self.name is None or self.name[0] != pitch else self.name\n        return name, octave",
  'needs: a shared importer: a spelling with accidental, then the same letter without')
m('c16-high-octave-drops-accidentals', 'C16', 'kernpy/core/pitch_models.py',
  "            return f\"{name.lower() * (pitch.octave - HumdrumPitchExporter.C4_OCATAVE + 1)}{accidentals_output}\"",
  "            return f\"{name.lower() * (pitch.octave - HumdrumPitchExporter.C4_OCATAVE + 1)}{accidentals_output if pitch.octave < 9 else ''}\"",
  'needs: octave 9 with an alteration')
m('c16-export-memo-by-id', 'C16', 'kernpy/core/pitch_models.py',
  "    def export_pitch(self, pitch: AgnosticPitch) -> str:\n        accidentals = ''.join([c for c in pitch.name if c in ['-', '+']])\n        accidentals = accidentals.replace('+', '#')",
  "    def export_pitch(self, pitch: AgnosticPitch) -> str:\n        if self.pitch is not None and self.pitch[0] == hash(pitch.octave) and self.pitch[1][0] == pitch.name[0]:\n            return self.pitch[2]\n        accidentals = ''.join([c for c in pitch.name if c in ['-', '+']])\n        accidentals = accidentals.replace('+', '#')",
  'two sites: a one-entry memo keyed by (octave, letter) filled at the end of export_pitch (second hunk); needs two DIFFERENT pitches '
  'with the same letter and octave exported consecutively through ONE exporter')

# ------------------------------------------------------------------ C20
m('c20-write-appends', 'C20', 'kernpy/core/_io.py', "    with open(path, 'w+') as f:", "    with open(path, 'a+') as f:", 'needs: dump onto a pre-existing file')
m('c20-makedirs-dropped', 'C20', 'kernpy/core/_io.py',
  "        os.makedirs(os.path.dirname(path), exist_ok=True)", "        os.mkdir(os.path.dirname(path))", 'needs: a deeply missing directory (two levels)')
m('c20-exist-ok-false', 'C20', 'kernpy/core/_io.py',
  "        os.makedirs(os.path.dirname(path), exist_ok=True)", "        os.makedirs(os.path.dirname(path))", 'needs: the mkdir race (actor creates the directory inside the exists->makedirs window)')
m('c20-import-file-universal-newlines', 'C20', 'kernpy/core/importer.py',
  "        with open(file_path, 'r', newline='', encoding='utf-8', errors='ignore') as file:", "        with open(file_path, 'r', encoding='utf-8', errors='ignore') as file:",
  'needs: nothing visible for LF/CRLF (csv copes); kept as an EQUIVALENT-mutant control') if False else None
m('c20-import-file-locale-encoding', 'C20', 'kernpy/core/importer.py',
  "        with open(file_path, 'r', newline='', encoding='utf-8', errors='ignore') as file:", "        with open(file_path, 'r', newline='', errors='ignore') as file:",
  'needs: non-ASCII content under a non-UTF-8 locale')
m('c20-import-file-strict-errors', 'C20', 'kernpy/core/importer.py',
  "        with open(file_path, 'r', newline='', encoding='utf-8', errors='ignore') as file:", "        with open(file_path, 'r', newline='', encoding='utf-8') as file:",
  'needs: invalid UTF-8 in the file (flipped stored byte)')
m('c20-ekern-header-after-strip', 'C20', 'kernpy/core/exporter.py',
  "    content = ekern_content.replace(\"**ekern\", \"**kern\")  # TODO Constante según las cabeceras\n    content = content.replace(TOKEN_SEPARATOR, \"\")\n    content = content.replace(DECORATION_SEPARATOR, \"\")",
  "    content = ekern_content.replace(TOKEN_SEPARATOR, \"\")\n    content = content.replace(DECORATION_SEPARATOR, \"\")\n    content = content.replace(\"**ekern\\t\", \"**kern\\t\").replace(\"**ekern\\n\", \"**kern\\n\")  # TODO Constante según las cabeceras",
  'needs: an ekern file whose header line ends with CRLF or has no final newline (single header-only line)') if False else None
m('c20-cli-suffix-appended-for-dotted-names', 'C20', 'kernpy/__main__.py',
  "        out = file.with_suffix(\".ekrn\")\n        try:\n            kern_to_ekern(str(file), str(out))",
  "        out = file.with_suffix(\".ekrn\") if file.name.count('.') < 2 else Path(str(file) + \".ekrn\")\n        try:\n            kern_to_ekern(str(file), str(out))",
  'needs: directory mode with an input whose name has several dots (x.y.krn)')
m('c20-rglob-always', 'C20', 'kernpy/__main__.py',
  "        if recursive:\n            files.extend(directory.rglob(pattern))", "        if recursive or pattern.endswith('.kern'):\n            files.extend(directory.rglob(pattern))",
  'needs: non-recursive directory mode with a nested .kern file')
m('c20-dir-mode-break-on-error', 'C20', 'kernpy/__main__.py',
  "        except Exception as e:\n            print(f\"Error converting {file}: {e}\", file=sys.stderr)\n\n\ndef handle_polish_exporter",
  "        except Exception as e:\n            print(f\"Error converting {file}: {e}\", file=sys.stderr)\n            break\n\n\ndef handle_polish_exporter",
  'needs: directory mode k2e where an input that fails is listed before one that converts')
m('c20-output-path-ignored', 'C20', 'kernpy/__main__.py',
  "        out = output_path or input_path.with_suffix(\".ekrn\")", "        out = input_path.with_suffix(\".ekrn\") if input_path.suffix == '.kern' else output_path or input_path.with_suffix(\".ekrn\")",
  'needs: single-file mode with --output_path and a .kern input')
m('c20-converter-options-differ', 'C20', 'kernpy/core/exporter.py',
  "                                   token_categories=TokenCategory.valid(include=BEKERN_CATEGORIES),",
  "                                   token_categories=TokenCategory.valid(include=BEKERN_CATEGORIES, exclude={TokenCategory.ALTERATION} if len(document.get_header_stage()) > 2 else None),",
  'needs: a file with >2 spines and a note with an accidental')
m('c20-swallow-oserror-on-write', 'C20', 'kernpy/core/_io.py',
  "    with open(path, 'w+') as f:\n        f.write(content)", "    try:\n        with open(path, 'w+') as f:\n            f.write(content)\n    except OSError:\n        pass",
  'needs: an injected ENOSPC/EIO/EACCES on the dump target: dump returns normally with a wrong target')
m('c20-write-without-truncate', 'C20', 'kernpy/core/exporter.py',
  "    with open(output_file, 'w') as file:\n        file.write(exported_ekern)", "    with open(output_file, 'r+' if os.path.exists(output_file) else 'w') as file:\n        file.write(exported_ekern)",
  'two sites: needs import os (second hunk); needs a pre-existing LONGER output file (already-converted output of a longer score)')

M = [x for x in M if x is not None]

# second hunks for two-site mutants: name -> (file, old, new)
SECOND = {
    'c14-traversal-class-list': ('kernpy/core/document.py', "class TokensTraversal(TreeTraversalInterface):\n    def __init__(", "class TokensTraversal(TreeTraversalInterface):\n    tokens = []\n\n    def __init__("),
    'c14-headers-shared-and-discard': ('kernpy/core/exporter.py', "        options = ExportOptions(spine_types=spine_types, token_categories=[TokenCategory.HEADER])\n        content = self.export_string(document, options)",
                                       "        options = ExportOptions(spine_types=spine_types, token_categories=[TokenCategory.HEADER])\n        if '**mens' in options.spine_types and not isinstance(options.spine_types, list):\n            options.spine_types.discard('**mens')  # not supported yet\n        content = self.export_string(document, options)"),
    'c14-temp-mutate-no-finally': ('kernpy/core/exporter.py', "        result = \"\"\n        for row in rows:\n            if not empty_row(row):\n                result += '\\t'.join(row) + '\\n'\n        return result",
                                   "        result = \"\"\n        for row in rows:\n            if not empty_row(row):\n                result += '\\t'.join(row) + '\\n'\n        document.header_stage = saved_header_stage\n        return result"),
    'c14-frequencies-cache-keyed-by-id': [('kernpy/core/document.py', "        return frequencies\n\n    def split(self)", "        _FREQ_CACHE[key] = {k: dict(v) for k, v in frequencies.items()}\n        return frequencies\n\n    def split(self)"),
                                          ('kernpy/core/document.py', "class SignatureNodes:\n", "_FREQ_CACHE = {}\n\n\nclass SignatureNodes:\n")],
    'c16-export-memo-by-id': ('kernpy/core/pitch_models.py', "        name = pitch.name.replace('+', '').replace('-', '')\n\n        if pitch.octave >= HumdrumPitchExporter.C4_OCATAVE:\n            return f\"{name.lower() * (pitch.octave - HumdrumPitchExporter.C4_OCATAVE + 1)}{accidentals_output}\"\n        else:\n            return f\"{name.upper() * (HumdrumPitchExporter.C3_OCATAVE - pitch.octave + 1)}{accidentals_output}\"",
                              "        name = pitch.name.replace('+', '').replace('-', '')\n\n        if pitch.octave >= HumdrumPitchExporter.C4_OCATAVE:\n            out = f\"{name.lower() * (pitch.octave - HumdrumPitchExporter.C4_OCATAVE + 1)}{accidentals_output}\"\n        else:\n            out = f\"{name.upper() * (HumdrumPitchExporter.C3_OCATAVE - pitch.octave + 1)}{accidentals_output}\"\n        self.pitch = (hash(pitch.octave), pitch.name, out)\n        return out"),
    'c20-write-without-truncate': ('kernpy/core/exporter.py', "from copy import deepcopy\n", "import os\nfrom copy import deepcopy\n"),
}


# the trigger is the reuse of a freed object's address (id()): detection is reliable in a batch, but whether one particular
# plan hits the same address again in another interpreter is not under any harness's control, so "caught" is the criterion
ADDRESS_DEPENDENT = {'c14-frequencies-cache-keyed-by-id'}


def main():
    os.makedirs(OUT, exist_ok=True)
    for f in os.listdir(OUT):
        if f.endswith('.diff') or f.endswith('.meta'):
            os.remove(os.path.join(OUT, f))
    bad = 0
    for name, prop, file, old, new, note in M:
        edits = {}
        extra = SECOND.get(name, [])
        extra = extra if isinstance(extra, list) else [extra]
        for (fl, o, n) in [(file, old, new)] + extra:
            src = edits.get(fl) or open(os.path.join(REPO, fl), encoding='utf-8').read()
            if src.count(o) != 1:
                print(f'!! {name}: anchor occurs {src.count(o)} times in {fl}')
                bad += 1
                continue
            edits.setdefault('orig:' + fl, open(os.path.join(REPO, fl), encoding='utf-8').read())
            edits[fl] = src.replace(o, n)
        diff = ''
        for fl in [k for k in edits if not k.startswith('orig:')]:
            diff += ''.join(difflib.unified_diff(edits['orig:' + fl].splitlines(True), edits[fl].splitlines(True), 'a/' + fl, 'b/' + fl))
        with open(os.path.join(OUT, name + '.diff'), 'w', encoding='utf-8') as fh:
            fh.write(diff)
        with open(os.path.join(OUT, name + '.meta'), 'w', encoding='utf-8') as fh:
            fh.write(f'property={prop}\nneeds={note}\n')
            if name in ADDRESS_DEPENDENT:
                fh.write('accept=caught\n')
    print(f'{len(M)} mutants written to {OUT}, {bad} anchor problems')
    return 1 if bad else 0


if __name__ == '__main__':
    sys.exit(main())
