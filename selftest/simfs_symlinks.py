"""Fidelity of simfs's symbolic links (links to regular files, followed in the final path component) against the real file system:
the same scenario - open/stat/lstat/readlink/listdir/scandir/glob/rglob/resolve/write-through/unlink/rename, dangling links - runs on a
real temporary directory and on the simulated tree; every observation must agree. Exit 1 on any difference."""
import os, sys, tempfile, stat, shutil
sys.path.insert(0,'/verif')
from pathlib import Path
from simkit.simfs import SimFS, PREFIX

def scenario(root, mk_link):
    out=[]
    def rec(name, fn):
        try: out.append((name, fn()))
        except OSError as e: out.append((name, type(e).__name__, e.errno))
    r=root
    rel=lambda p: str(p).replace(r,'<R>')
    rec('read via link', lambda: open(r+'/in/l.krn',encoding='utf-8').read())
    rec('stat', lambda: stat.S_IFMT(os.stat(r+'/in/l.krn').st_mode))
    rec('lstat', lambda: stat.S_IFMT(os.lstat(r+'/in/l.krn').st_mode))
    rec('readlink', lambda: os.readlink(r+'/in/l.krn'))
    rec('readlink nonlink', lambda: os.readlink(r+'/data/t.krn'))
    rec('listdir', lambda: sorted(os.listdir(r+'/in')))
    rec('glob', lambda: sorted(rel(p) for p in Path(r+'/in').glob('*.krn')))
    rec('rglob', lambda: sorted(rel(p) for p in Path(r).rglob('*.krn')))
    rec('resolve', lambda: rel(Path(r+'/in/l.krn').resolve()))
    rec('is_file', lambda: Path(r+'/in/l.krn').is_file())
    rec('islink', lambda: os.path.islink(r+'/in/l.krn'))
    rec('scandir', lambda: sorted((e.name,e.is_symlink(),e.is_file(),e.is_file(follow_symlinks=False),e.is_dir()) for e in os.scandir(r+'/in')))
    rec('dangling exists', lambda: os.path.exists(r+'/in/d.krn'))
    rec('dangling lexists', lambda: os.path.lexists(r+'/in/d.krn'))
    rec('dangling open', lambda: open(r+'/in/d.krn').read())
    rec('dangling is_file', lambda: Path(r+'/in/d.krn').is_file())
    def w():
        with open(r+'/in/l.krn','w',encoding='utf-8') as f: f.write('NEW')
        return open(r+'/data/t.krn').read()
    rec('write via link', w)
    rec('with_suffix', lambda: rel(Path(r+'/in/l.krn').with_suffix('.ekrn')))
    def u():
        os.unlink(r+'/in/l.krn'); return (os.path.exists(r+'/data/t.krn'), os.path.lexists(r+'/in/l.krn'))
    rec('unlink link', u)
    def rn():
        os.rename(r+'/in/l2.krn', r+'/in/l3.krn'); return (os.readlink(r+'/in/l3.krn'), os.path.lexists(r+'/in/l2.krn'))
    rec('rename link', rn)
    return out

# real
d=tempfile.mkdtemp()
os.makedirs(d+'/in'); os.makedirs(d+'/data')
open(d+'/data/t.krn','w').write('**kern\n4c\n*-\n'); open(d+'/in/a.krn','w').write('x')
os.symlink('../data/t.krn', d+'/in/l.krn'); os.symlink(d+'/data/t.krn', d+'/in/l2.krn'); os.symlink('nowhere.krn', d+'/in/d.krn')
real=scenario(d,None)
real=[tuple(str(x).replace(d,'<R>') if isinstance(x,str) else x for x in t) for t in real]
shutil.rmtree(d)
# sim
fs=SimFS({'io_seed':1,'chunking':'whole','shuffle_listing':False},None)
R=PREFIX+'/w'
fs.put(R+'/data/t.krn',b'**kern\n4c\n*-\n'); fs.put(R+'/in/a.krn',b'x')
fs.symlink(R+'/in/l.krn','../data/t.krn'); fs.symlink(R+'/in/l2.krn',R+'/data/t.krn'); fs.symlink(R+'/in/d.krn','nowhere.krn')
fs.cwd=R
with fs.mount():
    sim=scenario(R,None)
sim=[tuple(str(x).replace(R,'<R>') if isinstance(x,str) else x for x in t) for t in sim]
bad=0
for a,b in zip(real,sim):
    if repr(a).replace(d,'<R>')!=repr(b).replace(R,'<R>'):
        bad+=1; print('DIFF', a, b)
print('simfs_symlinks:', len(real), 'observations,', bad, 'differences')
sys.exit(1 if bad or len(real) != len(sim) else 0)
