#!/usr/bin/env python3
"""Regression: literal plans that once raised a FALSE alarm (or a since-repaired genuine defect) must not fire on the tree.

Replays every selftest/regress/*.json with ./check <prop> --replay; exit code 2 ("did not reproduce") or 0 (explained by a listed
finding) is a pass, 1 (VIOLATION) is a failure."""
import glob, json, os, subprocess, sys
HERE = os.path.dirname(os.path.dirname(os.path.abspath(__file__)))
bad = 0
for f in sorted(glob.glob(os.path.join(HERE, 'selftest', 'regress', '*.json'))):
    prop = json.load(open(f, encoding='utf-8'))['property']
    r = subprocess.run([os.path.join(HERE, 'check'), prop, '--replay', f], cwd=HERE, capture_output=True, text=True)
    ok = r.returncode in (0, 2)
    bad += not ok
    print(f'{os.path.basename(f):60s} rc={r.returncode} {"ok" if ok else "FALSE ALARM IS BACK"}')
sys.exit(1 if bad else 0)
