#!/venv/bin/python
"""Determinism self-test (DESIGN 3.8).

For every claimed check and several VERIF_SEED values the batch digest (SHA-256 over the per-run event-log
digests, which contain kernpy's normalised outputs) must be identical across
  * the same seed run twice,
  * 1 worker vs 16 workers,
  * another PYTHONHASHSEED in a fresh interpreter.
Exit 0 iff all digests agree.   --smoke: 2 seeds, few runs (used by setup.sh);  default: 6 seeds;  --full: 24 seeds.
"""
import json
import os
import subprocess
import sys
import concurrent.futures as cf

HERE = os.path.dirname(os.path.dirname(os.path.abspath(__file__)))


def digest(prop, seed, runs, workers=None, hashseed=None, start=0, want_hs=False):
    env = dict(os.environ)
    env['VERIF_SEED'] = str(seed)
    env.pop('PYTHONHASHSEED', None)
    env.pop('SIMKIT_NO_REEXEC', None)
    if hashseed is not None:
        env['PYTHONHASHSEED'] = str(hashseed)
        env['SIMKIT_NO_REEXEC'] = '1'
    cmd = [os.path.join(HERE, 'check'), prop, '--runs', str(runs), '--start', str(start), '--digest-only']
    if workers:
        cmd += ['--workers', str(workers)]
    p = subprocess.run(cmd, env=env, cwd=HERE, capture_output=True, text=True, timeout=1800)
    lines = [l for l in p.stdout.splitlines() if len(l) == 64 and all(c in '0123456789abcdef' for c in l)]
    hs = [l[3:] for l in p.stdout.splitlines() if l.startswith('hs:')]
    if p.returncode == 2 or not lines or not hs:
        return f'ERROR rc={p.returncode} {p.stderr[-400:]}'
    # full digest for same-interpreter-environment legs; hash-insensitive digest when PYTHONHASHSEED differs
    return hs[-1] if hashseed is not None or want_hs else lines[-1]


def main():
    mode = 'smoke' if '--smoke' in sys.argv else 'full' if '--full' in sys.argv else 'default'
    only = [a for a in sys.argv[1:] if not a.startswith('--')]
    man = json.load(open(os.path.join(HERE, 'MANIFEST.json')))
    props = only or [c['property_id'] for c in man['checks']]
    nseeds = {'smoke': 1, 'default': 6, 'full': 24}[mode]
    runs = {'smoke': 24, 'default': 96, 'full': 160}[mode]
    jobs = []
    for prop in props:
        for s in range(nseeds):
            seed = 1000 + 7919 * s
            jobs.append((prop, seed, 'a', dict(workers=None)))
            if mode != 'smoke':
                jobs.append((prop, seed, 'again', dict(workers=None)))
            jobs.append((prop, seed, 'w1', dict(workers=1)))
            if mode != 'smoke' or s == 0:
                jobs.append((prop, seed, 'a_hs', dict(workers=None, want_hs=True)))
                jobs.append((prop, seed, 'hashseed', dict(workers=3, hashseed=12345 + s)))
    res = {}
    with cf.ThreadPoolExecutor(max_workers=4 if mode != 'smoke' else 3) as ex:
        futs = {ex.submit(digest, p, s, runs, **kw): (p, s, tag) for (p, s, tag, kw) in jobs}
        for f in cf.as_completed(futs):
            res[futs[f]] = f.result()
    bad = 0
    for prop in props:
        for s in range(nseeds):
            seed = 1000 + 7919 * s
            ds = {tag: res[(prop, seed, tag)] for (p, sd, tag, _) in jobs if p == prop and sd == seed}
            same_env = {v for t, v in ds.items() if t in ('a', 'again', 'w1')}
            cross = {v for t, v in ds.items() if t in ('a_hs', 'hashseed')}
            ok = len(same_env) == 1 and len(cross) <= 1 and not any(v.startswith('ERROR') for v in ds.values())
            if not ok:
                bad += 1
                print(f'NONDETERMINISM property={prop} seed={seed}: {ds}')
    print(f'determinism[{mode}]: {len(props)} checks x {nseeds} seeds x {runs} runs, '
          f'{len(jobs)} batches, mismatching (check, seed) pairs: {bad}')
    return 1 if bad else 0


if __name__ == '__main__':
    sys.exit(main())
