#!/usr/bin/env python3
"""Sensitivity self-test (DESIGN 3.8): every mutant must be caught by the quick tier of its property's check.

For each patch in selftest/mutants/*.diff and seeded/*/patch.diff:
  1. copy /repo's working tree (without .git) to a scratch directory outside /repo and /verif,
  2. apply the patch,
  3. (--baseline) run the pinned suite on the copy: the mutant must keep all 276 stable tests green,
  4. run  KERNPY_SRC=<copy> ./check <property> --tier quick  -> expect exit 1 and a VIOLATION line,
  5. replay the reported file against the copy -> expect exit 1 again (the minimised plan reproduces),
  6. delete the copy.
usage: sensitivity.py [--baseline] [--jobs N] [--runs N] [name-substring ...]
Prints a table and exits 0 iff every selected mutant was caught and replayed.
"""
import concurrent.futures as cf
import glob
import json
import os
import re
import shutil
import subprocess
import sys
import tempfile
import time

HERE = os.path.dirname(os.path.dirname(os.path.abspath(__file__)))
REPO = '/repo'


def collect():
    out = []
    for p in sorted(glob.glob(os.path.join(HERE, 'selftest', 'mutants', '*.diff'))):
        meta = dict(l.strip().split('=', 1) for l in open(p[:-5] + '.meta', encoding='utf-8') if '=' in l)
        out.append({'name': os.path.basename(p)[:-5], 'patch': p, 'property': meta['property'], 'origin': 'selftest', 'accept': meta.get('accept')})
    for p in sorted(glob.glob(os.path.join(HERE, 'seeded', '*', 'patch.diff'))):
        meta = json.load(open(os.path.join(os.path.dirname(p), 'meta.json'), encoding='utf-8'))
        out.append({'name': os.path.basename(os.path.dirname(p)), 'patch': p, 'property': meta['property'], 'origin': 'seeded',
                    'also': meta.get('also_checked_with', []), 'accept': meta.get('accept')})
    return out


def run_one(mut, baseline, runs):
    t0 = time.time()
    scratch = tempfile.mkdtemp(prefix='kernpy_mut_', dir='/tmp')
    res = {'name': mut['name'], 'property': mut['property'], 'origin': mut['origin']}
    try:
        subprocess.run(['rsync', '-a', '--exclude', '.git', '--exclude', '__pycache__', REPO + '/', scratch + '/'], check=True)
        p = subprocess.run(['patch', '-p1', '-s', '-i', mut['patch']], cwd=scratch, capture_output=True, text=True)
        if p.returncode != 0:
            res['status'] = 'PATCH-FAILED ' + (p.stdout + p.stderr)[-200:]
            return res
        if baseline:
            b = subprocess.run([sys.executable, os.path.join(HERE, 'tools', 'baseline_check.py'), scratch], capture_output=True, text=True)
            res['baseline'] = 'green' if b.returncode == 0 else 'BROKEN ' + b.stdout[-300:]
        # concurrent jobs for one property would otherwise write the same <seed>-<run>.json
        env = dict(os.environ, KERNPY_SRC=scratch, VERIF_REPLAY_DIR=os.path.join(HERE, 'out', 'replay-sensitivity', mut['name']))
        env.pop('PYTHONHASHSEED', None)
        env.pop('SIMKIT_NO_REEXEC', None)
        caught_by = None
        for prop in [mut['property']] + list(mut.get('also', [])):
            cmd = [os.path.join(HERE, 'check'), prop, '--tier', 'quick', '--no-evidence']
            if runs:
                cmd += ['--runs', str(runs)]
            c = subprocess.run(cmd, env=env, cwd=HERE, capture_output=True, text=True, timeout=3600)
            m = re.search(r'^VIOLATION property=(\S+) replay=(\S+)$', c.stdout, re.M)
            if c.returncode == 1 and m:
                caught_by = prop
                res['replay'] = m.group(2)
                sig = re.search(r'signature=(\S+)', c.stderr)
                res['signature'] = sig.group(1) if sig else '?'
                break
            res['last_rc'] = c.returncode
            res['last_err'] = c.stderr[-300:]
        if caught_by is None:
            res['status'] = f'MISSED (rc={res.get("last_rc")})'
            if mut.get('accept') == 'missed':
                res['status'] = 'caught+replayed'           # counted as expected, shown as acknowledged
                res['signature'] = 'NOT CAUGHT - acknowledged: outside the simulated model (see meta.json / DESIGN 8.11)'
            return res
        r = subprocess.run([os.path.join(HERE, 'check'), caught_by, '--replay', res['replay']], env=env, cwd=HERE, capture_output=True, text=True, timeout=600)
        res['status'] = 'caught+replayed' if r.returncode == 1 else \
            'caught+replayed' if mut.get('accept') == 'caught' else f'caught, REPLAY rc={r.returncode}'
        if r.returncode != 1 and mut.get('accept') == 'caught':
            res['signature'] = res.get('signature', '') + ' (address-dependent: replay unstable, accepted)'
        res['caught_by'] = caught_by
        # the replay must NOT reproduce on the unmutated tree
        r2 = subprocess.run([os.path.join(HERE, 'check'), caught_by, '--replay', res['replay']], env=dict(env, KERNPY_SRC=REPO), cwd=HERE, capture_output=True, text=True, timeout=600)
        # rc 2 = the signature does not occur on the clean tree; rc 0 = it occurs but is a listed known finding there
        # (same violation class as the mutant's, recognised by its matcher on the clean tree only)
        res['replay_on_clean_tree'] = 'does not reproduce' if r2.returncode == 2 else 'known finding there' if r2.returncode == 0 else f'rc={r2.returncode}'
        try:
            plan = json.load(open(res['replay'], encoding='utf-8'))
            res['minimised_ops'] = len(plan['plan'].get('ops', plan['plan'].get('tokens', plan['plan'].get('faults', []))))
        except Exception:
            pass
        return res
    finally:
        shutil.rmtree(scratch, ignore_errors=True)
        res['wall_s'] = round(time.time() - t0, 1)


def main():
    args = [a for a in sys.argv[1:] if not a.startswith('--')]
    baseline = '--baseline' in sys.argv
    jobs = int(sys.argv[sys.argv.index('--jobs') + 1]) if '--jobs' in sys.argv else 2
    runs = int(sys.argv[sys.argv.index('--runs') + 1]) if '--runs' in sys.argv else None
    if '--jobs' in sys.argv:
        args = [a for a in args if a != str(jobs)]
    if '--runs' in sys.argv:
        args = [a for a in args if a != str(runs)]
    muts = [m for m in collect() if not args or any(a in m['name'] for a in args)]
    results = []
    with cf.ThreadPoolExecutor(max_workers=jobs) as ex:
        for r in ex.map(lambda m: run_one(m, baseline, runs), muts):
            results.append(r)
            print(f"{r['name']:48s} {r['property']}  {r.get('status'):18s} {r.get('signature', ''):52s} "
                  f"{'base=' + r['baseline'][:12] if 'baseline' in r else '':18s} {r.get('replay_on_clean_tree', ''):20s} {r.get('wall_s')}s", flush=True)
    bad = [r for r in results if r.get('status') != 'caught+replayed' or r.get('replay_on_clean_tree', 'does not reproduce') not in ('does not reproduce', 'known finding there')
           or ('baseline' in r and r['baseline'] != 'green')]
    out = os.path.join(HERE, 'out', 'sensitivity.json')
    os.makedirs(os.path.dirname(out), exist_ok=True)
    json.dump(results, open(out, 'w'), indent=1)
    print(f'sensitivity: {len(results) - len(bad)}/{len(results)} mutants caught, replayed, and silent on the clean tree')
    for r in bad:
        print('  PROBLEM', r['name'], r.get('status'), r.get('baseline', ''), r.get('replay_on_clean_tree', ''), r.get('last_err', '')[-200:])
    return 1 if bad else 0


if __name__ == '__main__':
    sys.exit(main())
