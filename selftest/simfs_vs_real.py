#!/venv/bin/python
"""Fidelity self-test of the stub: the simulated OS must behave like the real one on fault-free operation sequences.

Seeded random sequences of file-system operations (makedirs/mkdir, open in every mode, read, write, seek, listdir/scandir,
stat/exists/isdir/isfile, glob/rglob, rename/replace, unlink/rmdir, os.open+fdopen, shutil.copyfile, Path.read_text/write_text)
are executed twice - against a real temporary directory and against simfs (whole-buffer chunking, no faults, sorted listing) -
and every outcome (value, or exception class + errno) must agree. Exit 0 iff all sequences agree.
usage: simfs_vs_real.py [sequences=300] [seed=0]
"""
import errno
import os
import random
import shutil
import sys
import tempfile
from pathlib import Path

HERE = os.path.dirname(os.path.dirname(os.path.abspath(__file__)))
sys.path.insert(0, HERE)
from simkit.simfs import SimFS, PREFIX  # noqa

NAMES = ['a', 'b', 'c.krn', 'd.kern', 'sub', 'sub/x.krn', 'sub/deep', 'sub/deep/y.txt', 'e.txt', 'Ü.krn', 'sub/e.ekrn', 'nope/z']


def outcome(fn):
    try:
        v = fn()
        return ('ok', v)
    except OSError as e:
        return ('exc', type(e).__name__, errno.errorcode.get(e.errno, e.errno))
    except Exception as e:
        return ('exc', type(e).__name__)


def ops_for(rng, n):
    out = []
    for _ in range(n):
        k = rng.choice(['makedirs', 'mkdir', 'write', 'append', 'read', 'readbin', 'xcreate', 'rplus', 'listdir', 'scandir', 'stat', 'exists',
                        'glob', 'rglob', 'rename', 'replace', 'unlink', 'rmdir', 'osopen', 'copyfile', 'pathrw', 'wplus', 'truncate_open', 'isdir'])
        out.append((k, rng.choice(NAMES), rng.choice(NAMES), rng.choice(['x', 'héllo\n', 'line1\r\nline2\n', '', '歌' * 50]), rng.random() < 0.5))
    return out


def run(root, ops):
    res = []
    R = lambda n: os.path.join(root, n)
    for k, a, b, data, flag in ops:
        if k == 'makedirs':
            r = outcome(lambda: os.makedirs(R(a), exist_ok=flag))
        elif k == 'mkdir':
            r = outcome(lambda: os.mkdir(R(a)))
        elif k == 'write':
            def f():
                with open(R(a), 'w', encoding='utf-8', newline='') as fh:
                    return fh.write(data)
            r = outcome(f)
        elif k == 'append':
            def f():
                with open(R(a), 'a', encoding='utf-8') as fh:
                    fh.write(data)
                    return fh.tell()
            r = outcome(f)
        elif k == 'read':
            def f():
                with open(R(a), 'r', encoding='utf-8', newline='' if flag else None) as fh:
                    return fh.read()
            r = outcome(f)
        elif k == 'readbin':
            def f():
                with open(R(a), 'rb') as fh:
                    fh.seek(2)
                    return fh.read(7), fh.tell()
            r = outcome(f)
        elif k == 'xcreate':
            def f():
                with open(R(a), 'x', encoding='utf-8') as fh:
                    fh.write(data)
                return True
            r = outcome(f)
        elif k == 'rplus':
            def f():
                with open(R(a), 'r+', encoding='utf-8') as fh:
                    head = fh.read(3)
                    fh.seek(0)
                    fh.write('ZZ')
                    return head
            r = outcome(f)
        elif k == 'wplus':
            def f():
                with open(R(a), 'w+', encoding='utf-8') as fh:
                    fh.write(data)
                    fh.seek(0)
                    return fh.read()
            r = outcome(f)
        elif k == 'truncate_open':
            def f():
                with open(R(a), 'w') as fh:
                    pass
                return os.path.getsize(R(a))
            r = outcome(f)
        elif k == 'listdir':
            r = outcome(lambda: sorted(os.listdir(R(a))))
        elif k == 'scandir':
            def f():
                with os.scandir(R(a)) as it:
                    return sorted((e.name, e.is_dir(), e.is_file()) for e in it)
            r = outcome(f)
        elif k == 'stat':
            def f():
                st = os.stat(R(a))
                import stat as S
                return (S.S_ISDIR(st.st_mode), S.S_ISREG(st.st_mode), st.st_size if S.S_ISREG(st.st_mode) else None)
            r = outcome(f)
        elif k == 'exists':
            r = outcome(lambda: (os.path.exists(R(a)), os.path.isfile(R(a)), Path(R(a)).is_file(), Path(R(a)).exists()))
        elif k == 'isdir':
            r = outcome(lambda: (os.path.isdir(R(a)), Path(R(a)).is_dir()))
        elif k == 'glob':
            r = outcome(lambda: sorted(str(p)[len(root):] for p in Path(R(a)).glob('*.krn')))
        elif k == 'rglob':
            r = outcome(lambda: sorted(str(p)[len(root):] for p in Path(root).rglob('*.k*rn')))
        elif k == 'rename':
            r = outcome(lambda: os.rename(R(a), R(b)))
        elif k == 'replace':
            r = outcome(lambda: os.replace(R(a), R(b)))
        elif k == 'unlink':
            r = outcome(lambda: os.unlink(R(a)))
        elif k == 'rmdir':
            r = outcome(lambda: os.rmdir(R(a)))
        elif k == 'osopen':
            def f():
                fd = os.open(R(a), os.O_WRONLY | os.O_CREAT | (os.O_TRUNC if flag else 0), 0o644)
                with os.fdopen(fd, 'w', encoding='utf-8') as fh:
                    fh.write(data)
                return os.path.getsize(R(a))
            r = outcome(f)
        elif k == 'copyfile':
            def f():
                shutil.copyfile(R(a), R(b))
                return os.path.getsize(R(b))
            r = outcome(f)
        elif k == 'pathrw':
            def f():
                Path(R(a)).write_text(data, encoding='utf-8')
                return Path(R(a)).read_text(encoding='utf-8')
            r = outcome(f)
        res.append((k, a, b, r))
    return res


def tree(root, listdir):
    out = []
    stack = ['']
    while stack:
        d = stack.pop()
        for n in sorted(listdir(os.path.join(root, d))):
            p = os.path.join(d, n)
            full = os.path.join(root, p)
            if os.path.isdir(full):
                out.append((p, 'dir'))
                stack.append(p)
            else:
                with open(full, 'rb') as fh:
                    out.append((p, fh.read()))
    return sorted(out, key=lambda t: t[0])


def main():
    nseq = int(sys.argv[1]) if len(sys.argv) > 1 else 300
    seed = int(sys.argv[2]) if len(sys.argv) > 2 else 0
    bad = 0
    total_ops = 0
    for i in range(nseq):
        rng = random.Random(seed * 100003 + i)
        ops = ops_for(rng, rng.randint(5, 40))
        total_ops += len(ops)
        real_root = tempfile.mkdtemp(prefix='simfs_real_')
        try:
            real = run(real_root, ops)
            real_tree = tree(real_root, os.listdir)
        finally:
            shutil.rmtree(real_root, ignore_errors=True)
        fs = SimFS({'chunking': 'whole', 'shuffle_listing': False, 'io_seed': i})
        sim_root = PREFIX + '/t'
        fs.mkdirs(sim_root)
        with fs.mount():
            sim = run(sim_root, ops)
            sim_tree = tree(sim_root, os.listdir)
        if real != sim or real_tree != sim_tree:
            bad += 1
            for x, y in zip(real, sim):
                if x != y:
                    print(f'sequence {i}: MISMATCH op={x[0]} a={x[1]} b={x[2]}\n   real: {x[3]}\n   sim:  {y[3]}')
                    break
            else:
                print(f'sequence {i}: final trees differ')
            if bad >= 5:
                break
    print(f'simfs_vs_real: {nseq} sequences, {total_ops} operations, mismatching sequences: {bad}')
    return 1 if bad else 0


if __name__ == '__main__':
    sys.exit(main())
